//go:build verif

package main

import (
	"encoding/json"
	"math/rand"
	"os"
	"path/filepath"
	"strings"

	"github.com/z7zmey/php-parser/pkg/token"
)

// G-cfg (DESIGN.md §2.5): sentences of the repository's own grammars.  Productions come from
// .cache/facts.json (regenerated from php5.y / php7.y by gofacts on every run), terminals are
// rendered from a lexeme table that is validated against the real lexer (lexing the lexeme in
// PHP mode must give that token), derivations are sampled with a production-coverage objective.
// A sentence is kept only when re-lexing it with the real lexer yields the intended token-id
// sequence; everything else is a generator rejection, never a violation.

type cfgProd struct {
	N   int      `json:"n"`
	Lhs string   `json:"lhs"`
	Rhs []string `json:"rhs"`
}

type cfgGrammar struct {
	Prods   []cfgProd `json:"prods"`
	byLhs   map[string][]int
	minCost map[string]int
	pcost   []int
	uses    []int
	fam     int
}

var lexemes = map[string]string{
	"T_INCLUDE": "include", "T_INCLUDE_ONCE": "include_once", "T_EXIT": "exit", "T_IF": "if", "T_LNUMBER": "1", "T_DNUMBER": "1.5", "T_STRING": "foo",
	"T_STRING_VARNAME": "v", "T_VARIABLE": "$a", "T_NUM_STRING": "0", "T_CONSTANT_ENCAPSED_STRING": "'s'", "T_ECHO": "echo", "T_DO": "do", "T_WHILE": "while",
	"T_ENDWHILE": "endwhile", "T_FOR": "for", "T_ENDFOR": "endfor", "T_FOREACH": "foreach", "T_ENDFOREACH": "endforeach", "T_DECLARE": "declare", "T_ENDDECLARE": "enddeclare",
	"T_AS": "as", "T_SWITCH": "switch", "T_ENDSWITCH": "endswitch", "T_CASE": "case", "T_DEFAULT": "default", "T_BREAK": "break", "T_CONTINUE": "continue", "T_GOTO": "goto",
	"T_FUNCTION": "function", "T_FN": "fn", "T_CONST": "const", "T_RETURN": "return", "T_TRY": "try", "T_CATCH": "catch", "T_FINALLY": "finally", "T_THROW": "throw", "T_USE": "use",
	"T_INSTEADOF": "insteadof", "T_GLOBAL": "global", "T_VAR": "var", "T_UNSET": "unset", "T_ISSET": "isset", "T_EMPTY": "empty", "T_HALT_COMPILER": "__halt_compiler",
	"T_CLASS": "class", "T_TRAIT": "trait", "T_INTERFACE": "interface", "T_EXTENDS": "extends", "T_IMPLEMENTS": "implements", "T_OBJECT_OPERATOR": "->", "T_DOUBLE_ARROW": "=>",
	"T_LIST": "list", "T_ARRAY": "array", "T_CALLABLE": "callable", "T_CLASS_C": "__CLASS__", "T_TRAIT_C": "__TRAIT__", "T_METHOD_C": "__METHOD__", "T_FUNC_C": "__FUNCTION__",
	"T_LINE": "__LINE__", "T_FILE": "__FILE__", "T_DIR": "__DIR__", "T_NS_C": "__NAMESPACE__", "T_NAMESPACE": "namespace", "T_NS_SEPARATOR": "\\", "T_ELLIPSIS": "...",
	"T_EVAL": "eval", "T_REQUIRE": "require", "T_REQUIRE_ONCE": "require_once", "T_LOGICAL_OR": "or", "T_LOGICAL_XOR": "xor", "T_LOGICAL_AND": "and", "T_INSTANCEOF": "instanceof",
	"T_NEW": "new", "T_CLONE": "clone", "T_ELSEIF": "elseif", "T_ELSE": "else", "T_ENDIF": "endif", "T_PRINT": "print", "T_YIELD": "yield", "T_YIELD_FROM": "yield from",
	"T_STATIC": "static", "T_ABSTRACT": "abstract", "T_FINAL": "final", "T_PRIVATE": "private", "T_PROTECTED": "protected", "T_PUBLIC": "public",
	"T_INC": "++", "T_DEC": "--", "T_PLUS_EQUAL": "+=", "T_MINUS_EQUAL": "-=", "T_MUL_EQUAL": "*=", "T_POW_EQUAL": "**=", "T_DIV_EQUAL": "/=", "T_CONCAT_EQUAL": ".=", "T_MOD_EQUAL": "%=",
	"T_AND_EQUAL": "&=", "T_OR_EQUAL": "|=", "T_XOR_EQUAL": "^=", "T_SL_EQUAL": "<<=", "T_SR_EQUAL": ">>=", "T_COALESCE_EQUAL": "??=", "T_BOOLEAN_OR": "||", "T_BOOLEAN_AND": "&&",
	"T_POW": "**", "T_SL": "<<", "T_SR": ">>", "T_COALESCE": "??", "T_IS_IDENTICAL": "===", "T_IS_NOT_IDENTICAL": "!==", "T_IS_EQUAL": "==", "T_IS_NOT_EQUAL": "!=", "T_SPACESHIP": "<=>",
	"T_IS_SMALLER_OR_EQUAL": "<=", "T_IS_GREATER_OR_EQUAL": ">=", "T_PAAMAYIM_NEKUDOTAYIM": "::", "T_INT_CAST": "(int)", "T_DOUBLE_CAST": "(float)", "T_STRING_CAST": "(string)",
	"T_ARRAY_CAST": "(array)", "T_OBJECT_CAST": "(object)", "T_BOOL_CAST": "(bool)", "T_UNSET_CAST": "(unset)", "T_CURLY_OPEN": "{", "T_DOLLAR_OPEN_CURLY_BRACES": "${",
	"T_ENCAPSED_AND_WHITESPACE": "t ", "T_START_HEREDOC": "<<<A\n", "T_END_HEREDOC": "A", "T_INLINE_HTML": "?>h<?php ",
}

// variants used in rotation so that values differ inside one sentence
var lexemeVariants = map[string][]string{
	"T_STRING": {"foo", "Bar", "baz", "A", "b", "qux"}, "T_VARIABLE": {"$a", "$b", "$c", "$this", "$x1"}, "T_LNUMBER": {"1", "0", "42", "0x1F", "017"},
	"T_DNUMBER": {"1.5", ".5", "1e3", "9223372036854775808"}, "T_CONSTANT_ENCAPSED_STRING": {"'s'", "\"d\"", "'a\\'b'", "\"\""}, "T_NUM_STRING": {"0", "12", "99999999999999999999", "0x1A"},
	"T_EXIT": {"exit", "die"}, "T_IS_NOT_EQUAL": {"!=", "<>"}, "T_INT_CAST": {"(int)", "(integer)", "( int )"}, "T_DOUBLE_CAST": {"(float)", "(double)", "(real)"},
	"T_BOOL_CAST": {"(bool)", "(boolean)"}, "T_STRING_CAST": {"(string)", "(binary)"}, "T_FUNCTION": {"function"}, "T_ENCAPSED_AND_WHITESPACE": {"t ", " x", "\\n", "y-"},
	"T_STRING_VARNAME": {"v", "name"},
}

var cfgCache = map[int]*cfgGrammar{}

func loadCfg(fam int) *cfgGrammar {
	if g, ok := cfgCache[fam]; ok {
		return g
	}
	b, err := os.ReadFile(filepath.Join(opts.Verif, ".cache", "facts.json"))
	if err != nil {
		return nil
	}
	var f map[string]json.RawMessage
	if json.Unmarshal(b, &f) != nil {
		return nil
	}
	key := "grammar7"
	if fam == 5 {
		key = "grammar5"
	}
	g := &cfgGrammar{fam: fam}
	if json.Unmarshal(f[key], g) != nil || len(g.Prods) == 0 {
		return nil
	}
	g.byLhs = map[string][]int{}
	for i, p := range g.Prods {
		g.byLhs[p.Lhs] = append(g.byLhs[p.Lhs], i)
	}
	// minimal derivation cost per nonterminal (number of terminals), fixpoint
	const inf = 1 << 20
	g.minCost = map[string]int{}
	for nt := range g.byLhs {
		g.minCost[nt] = inf
	}
	g.pcost = make([]int, len(g.Prods))
	for changed := true; changed; {
		changed = false
		for i, p := range g.Prods {
			c := 0
			for _, s := range p.Rhs {
				if _, isNt := g.byLhs[s]; isNt {
					c += g.minCost[s]
				} else if s == "error" {
					c += inf
				} else {
					c++
				}
				if c > inf {
					c = inf
				}
			}
			g.pcost[i] = c
			if c < g.minCost[p.Lhs] {
				g.minCost[p.Lhs] = c
				changed = true
			}
		}
	}
	g.uses = make([]int, len(g.Prods))
	cfgCache[fam] = g
	return g
}

// reachDist: for each nonterminal the least number of expansions after which production t's
// left-hand side appears (0 for that left-hand side itself)
func (g *cfgGrammar) reachDist(t int) map[string]int {
	d := map[string]int{g.Prods[t].Lhs: 0}
	for changed := true; changed; {
		changed = false
		for _, p := range g.Prods {
			if g.pcost[p.N-1] >= 1<<20 {
				continue
			}
			for _, s := range p.Rhs {
				if ds, ok := d[s]; ok {
					if cur, ok2 := d[p.Lhs]; !ok2 || ds+1 < cur {
						d[p.Lhs] = ds + 1
						changed = true
					}
				}
			}
		}
	}
	return d
}

type cfgTarget struct {
	idx  int
	dist map[string]int
	done bool
}

type cfgTok struct {
	sym  string
	text string
}

// derive expands nt; budget bounds the size, must (>= 0) forces one use of that production index.
func (g *cfgGrammar) derive(rng *rand.Rand, nt string, budget int, out *[]cfgTok, prodsUsed *[]int, depth int, tg *cfgTarget) {
	cands := g.byLhs[nt]
	var pick int
	if tg != nil && !tg.done {
		if dn, ok := tg.dist[nt]; ok {
			best, bestSym := -1, -1
			if dn == 0 {
				best = tg.idx
			} else {
				var steer [][2]int
				for _, i := range cands {
					if g.pcost[i] >= 1<<20 {
						continue
					}
					for k, s := range g.Prods[i].Rhs {
						if ds, ok := tg.dist[s]; ok && ds == dn-1 {
							steer = append(steer, [2]int{i, k})
							break
						}
					}
				}
				if len(steer) > 0 {
					c := steer[rng.Intn(len(steer))]
					for _, x := range steer {
						if g.pcost[x[0]] < g.pcost[c[0]] && rng.Intn(3) > 0 {
							c = x
						}
					}
					best, bestSym = c[0], c[1]
				}
			}
			if best >= 0 {
				g.uses[best]++
				*prodsUsed = append(*prodsUsed, g.Prods[best].N)
				if best == tg.idx {
					tg.done = true
				}
				for k, s := range g.Prods[best].Rhs {
					if _, isNt := g.byLhs[s]; isNt {
						if k == bestSym && !tg.done {
							g.derive(rng, s, g.minCost[s]+rng.Intn(4), out, prodsUsed, depth+1, tg)
						} else {
							g.derive(rng, s, g.minCost[s]+rng.Intn(4), out, prodsUsed, depth+1, nil)
						}
					} else {
						*out = append(*out, cfgTok{sym: s})
					}
				}
				return
			}
		}
	}
	// choose: cheapest when out of budget; otherwise prefer rarely used productions
	if budget <= g.minCost[nt] || depth > 40 {
		best := cands[0]
		for _, i := range cands {
			if g.pcost[i] < g.pcost[best] {
				best = i
			}
		}
		pick = best
	} else {
		var ok []int
		for _, i := range cands {
			if g.pcost[i] <= budget && g.pcost[i] < 1<<20 {
				ok = append(ok, i)
			}
		}
		if len(ok) == 0 {
			ok = cands
		}
		// weighted by 1/(1+uses)^2
		tot := 0.0
		w := make([]float64, len(ok))
		for k, i := range ok {
			w[k] = 1.0 / float64((1+g.uses[i])*(1+g.uses[i]))
			tot += w[k]
		}
		x := rng.Float64() * tot
		pick = ok[len(ok)-1]
		for k, i := range ok {
			x -= w[k]
			if x <= 0 {
				pick = i
				break
			}
		}
	}
	g.uses[pick]++
	*prodsUsed = append(*prodsUsed, g.Prods[pick].N)
	p := g.Prods[pick]
	rest := budget - g.pcost[pick]
	nnt := 0
	for _, s := range p.Rhs {
		if _, isNt := g.byLhs[s]; isNt {
			nnt++
		}
	}
	for _, s := range p.Rhs {
		if _, isNt := g.byLhs[s]; isNt {
			share := 0
			if nnt > 0 && rest > 0 {
				share = rng.Intn(rest + 1)
				if nnt == 1 {
					share = rest
				}
			}
			rest -= share
			nnt--
			g.derive(rng, s, g.minCost[s]+share, out, prodsUsed, depth+1, nil)
		} else {
			*out = append(*out, cfgTok{sym: s})
		}
	}
}

// render: tokens joined by one blank, except inside string-like modes where they are adjacent.
func renderCfg(rng *rand.Rand, toks []cfgTok) ([]byte, bool) {
	var b []byte
	b = append(b, "<?php "...)
	mode := 0 // 0 php, 1 inside "…" or `…`, 2 heredoc
	for i := range toks {
		s := toks[i].sym
		var t string
		if strings.HasPrefix(s, "'") && len(s) >= 3 {
			t = s[1 : len(s)-1]
		} else if vs, ok := lexemeVariants[s]; ok {
			t = vs[rng.Intn(len(vs))]
		} else if l, ok := lexemes[s]; ok {
			t = l
		} else {
			return nil, false
		}
		toks[i].text = t
		if mode == 0 && i > 0 {
			b = append(b, ' ')
		}
		b = append(b, t...)
		switch {
		case s == "'\"'" || s == "'`'":
			if mode == 0 {
				mode = 1
			} else if mode == 1 {
				mode = 0
			}
		case s == "T_START_HEREDOC":
			mode = 2
		case s == "T_END_HEREDOC":
			mode = 0
		}
	}
	return b, true
}

type cfgSentence struct {
	Src   []byte
	Prods []int
}

var tokenIDByName map[string]token.ID

func tokenIDs() map[string]token.ID {
	if tokenIDByName != nil {
		return tokenIDByName
	}
	tokenIDByName = map[string]token.ID{}
	for id := token.T_INCLUDE; id < token.T_INCLUDE+200; id++ {
		n := id.String()
		if strings.HasPrefix(n, "T_") {
			tokenIDByName[n] = id
		}
	}
	return tokenIDByName
}

// genCfg produces up to n accepted sentences of grammar fam; must lists production numbers that
// every sentence has to use (targeted search for a broken per-production obligation).
func genCfg(rng *rand.Rand, fam int, n int, must []int, stats map[string]int) []cfgSentence {
	g := loadCfg(fam)
	if g == nil {
		stats["cfg:no-grammar"]++
		return nil
	}
	ids := tokenIDs()
	var out []cfgSentence
	mustSet := map[int]bool{}
	for _, m := range must {
		mustSet[m] = true
	}
	tries := 0
	for len(out) < n && tries < n*30 {
		tries++
		var toks []cfgTok
		var used []int
		if len(must) > 0 {
			// push usage counts so that the wanted productions are chosen eagerly
			for i := range g.uses {
				if mustSet[g.Prods[i].N] {
					g.uses[i] = 0
				} else if g.uses[i] < 3 {
					g.uses[i] = 3
				}
			}
		}
		if len(must) > 0 {
			want := must[rng.Intn(len(must))]
			ti := -1
			for i, p := range g.Prods {
				if p.N == want {
					ti = i
				}
			}
			if ti >= 0 {
				g.derive(rng, "start", 6+rng.Intn(20), &toks, &used, 0, &cfgTarget{idx: ti, dist: g.reachDist(ti)})
			}
		} else {
			g.derive(rng, "start", 6+rng.Intn(60), &toks, &used, 0, nil)
		}
		if len(must) > 0 {
			hit := false
			for _, u := range used {
				if mustSet[u] {
					hit = true
				}
			}
			if !hit {
				stats["cfg:missed-target"]++
				continue
			}
		}
		src, ok := renderCfg(rng, toks)
		if !ok {
			stats["cfg:no-lexeme"]++
			continue
		}
		maj, min := uint64(7), uint64(4)
		if fam == 5 {
			maj, min = 5, 6
		}
		lt, nerr, pan := lexAll(src, maj, min)
		if pan != "" || nerr > 0 || len(lt) != len(toks) {
			stats["cfg:relex-mismatch"]++
			continue
		}
		okIDs := true
		for i, t := range toks {
			want, isNamed := ids[t.sym]
			if !isNamed && strings.HasPrefix(t.sym, "'") {
				want = token.ID(t.sym[1])
			}
			if lt[i].ID != want {
				okIDs = false
				break
			}
		}
		if !okIDs {
			stats["cfg:relex-mismatch"]++
			continue
		}
		stats["cfg:accepted"]++
		out = append(out, cfgSentence{src, used})
	}
	return out
}

// production coverage of a set of sentences
func cfgCoverage(fam int, ss []cfgSentence) (covered, total int) {
	g := loadCfg(fam)
	if g == nil {
		return 0, 0
	}
	seen := map[int]bool{}
	for _, s := range ss {
		for _, p := range s.Prods {
			seen[p] = true
		}
	}
	return len(seen), len(g.Prods)
}

var lastCfgStats = map[string]int{}

func init() {
	cfgSentences = func(rng *rand.Rand) [][]byte {
		n := 250
		if opts.Tier == "thorough" {
			n = 4000
		}
		var out [][]byte
		must := hintProductions()
		for _, fam := range []int{7, 5} {
			ss := genCfg(rng, fam, n, nil, lastCfgStats)
			if g := loadCfg(fam); g != nil {
				per := 1
				if opts.Tier == "thorough" {
					per = 6
				}
				for _, p := range g.Prods {
					ss = append(ss, genCfg(rng, fam, per, []int{p.N}, lastCfgStats)...)
				}
			}
			c, t := cfgCoverage(fam, ss)
			lastCfgStats[map[int]string{5: "cfg:php5-productions-covered", 7: "cfg:php7-productions-covered"}[fam]] = c
			lastCfgStats[map[int]string{5: "cfg:php5-productions", 7: "cfg:php7-productions"}[fam]] = t
			for _, s := range ss {
				out = append(out, s.Src)
				if tv := withTrivia(rng, s.Src, fam); len(tv) > 0 {
					out = append(out, tv[0]) // the same sentence with trivia before every token
				}
			}
			if fam == 7 {
				out = append(out, chainSentences(rng)...)
			}
			if len(must[fam]) > 0 {
				for _, s := range genCfg(rng, fam, 60, must[fam], lastCfgStats) {
					out = append(out, s.Src)
					// and the same sentence with trivia in every gap
					out = append(out, withTrivia(rng, s.Src, fam)...)
				}
			}
		}
		return out
	}
}

// hintProductions reads the runner's hints (broken obligations) for production numbers.
func hintProductions() map[int][]int {
	out := map[int][]int{}
	if opts.Hints == "" {
		return out
	}
	b, err := os.ReadFile(opts.Hints)
	if err != nil {
		return out
	}
	var hs []struct {
		Prods7 []int `json:"prods7"`
		Prods5 []int `json:"prods5"`
	}
	if json.Unmarshal(b, &hs) != nil {
		return out
	}
	for _, h := range hs {
		out[7] = append(out[7], h.Prods7...)
		out[5] = append(out[5], h.Prods5...)
	}
	return out
}

// withTrivia re-renders a sentence with whitespace / comments before every token (G-trivia).
func withTrivia(rng *rand.Rand, src []byte, fam int) [][]byte {
	return withTriviaKinds(rng, src, fam, -1)
}

// withTriviaKinds: the gaps between tokens are REPLACED: mode -1 mixes everything except lone CR;
// 0 blanks/tabs, 1 LF, 2 CRLF, 3 block comments (touching both neighbours), 4 line comments, 5 doc
// comments, 6 lone CR, 7 mix incl. lone CR, 8 glue (no trivia wherever the two tokens may touch), 9 empty comments
func withTriviaKinds(rng *rand.Rand, src []byte, fam int, mode int) [][]byte {
	maj, min := uint64(7), uint64(4)
	if fam == 5 {
		maj, min = 5, 6
	}
	lt, _, pan := lexAll(src, maj, min)
	if pan != "" || len(lt) == 0 {
		return nil
	}
	trivia := []string{" ", "  ", "\n", "\r\n", "\t", " /* c */ ", "\n// l\n", " # h\n", "/** d */", "#\n", "//\n"}
	switch mode {
	case 0:
		trivia = []string{" ", "\t", "   ", " \t "}
	case 1:
		trivia = []string{"\n", "\n\n", " \n "}
	case 2:
		trivia = []string{"\r\n", " \r\n\t"}
	case 3:
		trivia = []string{"/* c */", " /* a\nb */ ", "/**/"}
	case 4:
		trivia = []string{"// l\n", " # h\n", "//\r\n", "// ?\n"}
	case 5:
		trivia = []string{"/** d */", " /** d\n * e\n */ "}
	case 6:
		trivia = []string{"\r", " \r "}
	case 7:
		trivia = append(trivia, "\r", "// c\r")
	case 8:
		trivia = []string{""}
	case 9: // the shortest comments there are: an opener directly followed by the line end / the closer
		trivia = []string{"#\n", "//\n", "#\r\n", "//\r\n", "/**/", "#\n#\n", "#\n# c\n#\n", "//\n//\n", "# \n", "/***/"}
	}
	var out [][]byte
	nv := 2
	if mode >= 0 {
		nv = 1
	}
	isIdent := func(c byte) bool {
		return c == '_' || c >= '0' && c <= '9' || c >= 'a' && c <= 'z' || c >= 'A' && c <= 'Z' || c >= 0x80
	}
	// may two tokens stand next to each other with nothing in between?  Decided by PHP's lexical
	// structure, not by the lexer under test: never two identifier-like ends, never two operator
	// characters (they could fuse into a longer operator), nothing glued to a quote or a dot/number
	canGlue := func(a, b string) bool {
		if a == "" || b == "" {
			return false
		}
		x, y := a[len(a)-1], b[0]
		if isIdent(x) && isIdent(y) {
			return false
		}
		closers := strings.IndexByte(")]};,", x) >= 0
		openers := strings.IndexByte("$([{;,)]}", y) >= 0
		if isIdent(x) && openers && y != '{' {
			return true
		}
		if closers && (isIdent(y) || y == '$' || strings.IndexByte("([{)]};,", y) >= 0) && y != '{' {
			return true
		}
		return false
	}
	wsOnly := func(b []byte) bool {
		for _, c := range b {
			if c != ' ' && c != '\t' && c != '\n' && c != '\r' {
				return false
			}
		}
		return len(b) > 0
	}
	for v := 0; v < nv; v++ {
		var b []byte
		prev := 0
		inStr := false
		for i, t := range lt {
			if t.S < prev || t.E < t.S || t.E > len(src) {
				return out // overlapping / out-of-range token spans: the oracle proper reports them
			}
			gap := src[prev:t.S]
			// before 7.3 only `;` or a newline may follow the closing label, and a newline must follow that `;`
			// (the variant of a php7 sentence is parsed under 7.4, where anything may follow the closing label and its `;`)
			afterEnd := fam == 5 && ((i > 0 && lt[i-1].ID == token.T_END_HEREDOC) || (i > 1 && lt[i-2].ID == token.T_END_HEREDOC && lt[i-1].ID == token.ID(';')))
			free := !inStr && t.ID != token.T_END_HEREDOC && t.ID != token.T_ENCAPSED_AND_WHITESPACE && t.ID != token.T_INLINE_HTML && !afterEnd && t.S > 6 &&
				!strings.HasPrefix(t.Value, "<?") && !(i > 0 && lt[i-1].ID == token.T_INLINE_HTML) && i > 0 && lt[i-1].ID != token.T_START_HEREDOC
			if t.ID == token.ID('"') || t.ID == token.ID('`') {
				inStr = !inStr
				if !inStr {
					free = false
				}
			}
			switch {
			case !free:
				b = append(b, gap...)
			case mode == 8: // glue: no trivia at all where the two tokens may touch
				if wsOnly(gap) && canGlue(lt[i-1].Value, t.Value) {
					// nothing
				} else {
					b = append(b, gap...)
				}
			case wsOnly(gap) || len(gap) == 0:
				tv := trivia[rng.Intn(len(trivia))]
				if len(gap) == 0 && strings.TrimSpace(tv) == "" && rng.Intn(3) == 0 {
					tv = "" // two of three touching pairs are separated (PHP allows trivia between any two tokens outside string modes)
				}
				if pv := lt[i-1].Value; tv != "" && pv != "" && (tv[0] == '/' || tv[0] == '#') && strings.IndexByte("/<?*", pv[len(pv)-1]) >= 0 {
					tv = " " + tv // `/` + `/* c */` would read as a line comment
				}
				b = append(b, tv...)
			default:
				b = append(b, gap...)
				b = append(b, trivia[rng.Intn(len(trivia))]...)
			}
			if t.ID == token.T_START_HEREDOC {
				inStr = true
			}
			if t.ID == token.T_END_HEREDOC {
				inStr = false
			}
			b = append(b, src[t.S:t.E]...)
			prev = t.E
		}
		b = append(b, src[prev:]...)
		out = append(out, b)
	}
	return out
}
