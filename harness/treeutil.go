//go:build verif

package main

import (
	"fmt"
	"reflect"
	"sort"
	"strings"

	"github.com/z7zmey/php-parser/pkg/ast"
	"github.com/z7zmey/php-parser/pkg/position"
	"github.com/z7zmey/php-parser/pkg/token"
)

var (
	tVertex   = reflect.TypeOf((*ast.Vertex)(nil)).Elem()
	tVertices = reflect.TypeOf([]ast.Vertex(nil))
	tTok      = reflect.TypeOf((*token.Token)(nil))
	tToks     = reflect.TypeOf([]*token.Token(nil))
	tPos      = reflect.TypeOf((*position.Position)(nil))
	tBytes    = reflect.TypeOf([]byte(nil))
)

func isNilVertex(v ast.Vertex) bool {
	if v == nil {
		return true
	}
	rv := reflect.ValueOf(v)
	return rv.Kind() == reflect.Ptr && rv.IsNil()
}

func kindName(v ast.Vertex) string {
	return reflect.TypeOf(v).Elem().Name()
}

// fieldsOf enumerates the struct fields of a node in declaration order.
type nodeField struct {
	Name string
	Sort int // 0 pos, 1 tok, 2 toks, 3 node, 4 nodes, 5 bytes
	Val  reflect.Value
}

func fieldsOf(v ast.Vertex) []nodeField {
	rv := reflect.ValueOf(v).Elem()
	rt := rv.Type()
	var out []nodeField
	for i := 0; i < rt.NumField(); i++ {
		f := rt.Field(i)
		s := -1
		switch f.Type {
		case tPos:
			s = 0
		case tTok:
			s = 1
		case tToks:
			s = 2
		case tVertex:
			s = 3
		case tVertices:
			s = 4
		case tBytes:
			s = 5
		}
		out = append(out, nodeField{f.Name, s, rv.Field(i)})
	}
	return out
}

func childrenOf(v ast.Vertex) []ast.Vertex {
	var out []ast.Vertex
	for _, f := range fieldsOf(v) {
		switch f.Sort {
		case 3:
			if !f.Val.IsNil() {
				c := f.Val.Interface().(ast.Vertex)
				if !isNilVertex(c) {
					out = append(out, c)
				}
			}
		case 4:
			for i := 0; i < f.Val.Len(); i++ {
				e := f.Val.Index(i)
				if !e.IsNil() {
					c := e.Interface().(ast.Vertex)
					if !isNilVertex(c) {
						out = append(out, c)
					}
				}
			}
		}
	}
	return out
}

// walkTree: preorder in struct declaration order.
func walkTree(v ast.Vertex, fn func(n ast.Vertex, depth int), depth int) {
	if isNilVertex(v) {
		return
	}
	fn(v, depth)
	for _, c := range childrenOf(v) {
		walkTree(c, fn, depth+1)
	}
}

// ownTokens: tokens stored directly in the node's fields (not in children).
func ownTokens(v ast.Vertex) []*token.Token {
	var out []*token.Token
	for _, f := range fieldsOf(v) {
		switch f.Sort {
		case 1:
			if !f.Val.IsNil() {
				out = append(out, f.Val.Interface().(*token.Token))
			}
		case 2:
			for i := 0; i < f.Val.Len(); i++ {
				if !f.Val.Index(i).IsNil() {
					out = append(out, f.Val.Index(i).Interface().(*token.Token))
				}
			}
		}
	}
	return out
}

// allTokens: every token reachable from the tree (significant tokens only; free-floating via .FreeFloating).
func allTokens(root ast.Vertex) []*token.Token {
	var out []*token.Token
	walkTree(root, func(n ast.Vertex, _ int) { out = append(out, ownTokens(n)...) }, 0)
	return out
}

// structStr: kinds, nesting, field roles and byte values — no tokens, no positions (C08/C10/C17 projection).
func structStr(v ast.Vertex) string {
	var b strings.Builder
	var rec func(v ast.Vertex)
	rec = func(v ast.Vertex) {
		if isNilVertex(v) {
			b.WriteString("nil")
			return
		}
		b.WriteString(kindName(v))
		b.WriteString("{")
		for _, f := range fieldsOf(v) {
			switch f.Sort {
			case 3:
				if !f.Val.IsNil() {
					b.WriteString(f.Name + ":")
					rec(f.Val.Interface().(ast.Vertex))
					b.WriteString(",")
				}
			case 4:
				if f.Val.Len() > 0 {
					b.WriteString(f.Name + ":[")
					for i := 0; i < f.Val.Len(); i++ {
						e := f.Val.Index(i)
						if e.IsNil() {
							b.WriteString("nil,")
							continue
						}
						rec(e.Interface().(ast.Vertex))
						b.WriteString(",")
					}
					b.WriteString("],")
				}
			case 5:
				if !f.Val.IsNil() {
					fmt.Fprintf(&b, "%s:%q,", f.Name, f.Val.Bytes())
				}
			}
		}
		b.WriteString("}")
	}
	rec(v)
	return b.String()
}

// fullStr: structure + tokens (ids, values, free-floating) + positions, reflection-based.
func fullStr(v ast.Vertex, withPos bool) string {
	var b strings.Builder
	pos := func(p *position.Position) {
		if withPos {
			if p == nil {
				b.WriteString("@nil")
			} else {
				fmt.Fprintf(&b, "@%d:%d-%d:%d", p.StartLine, p.StartPos, p.EndLine, p.EndPos)
			}
		}
	}
	tok := func(t *token.Token) {
		if t == nil {
			b.WriteString("nil")
			return
		}
		fmt.Fprintf(&b, "T(%d,%q", int(t.ID), t.Value)
		pos(t.Position)
		for _, ff := range t.FreeFloating {
			fmt.Fprintf(&b, ",ff(%d,%q", int(ff.ID), ff.Value)
			pos(ff.Position)
			b.WriteString(")")
		}
		b.WriteString(")")
	}
	var rec func(v ast.Vertex)
	rec = func(v ast.Vertex) {
		if isNilVertex(v) {
			b.WriteString("nil")
			return
		}
		b.WriteString(kindName(v))
		pos(v.GetPosition())
		b.WriteString("{")
		for _, f := range fieldsOf(v) {
			switch f.Sort {
			case 1:
				if !f.Val.IsNil() {
					b.WriteString(f.Name + ":")
					tok(f.Val.Interface().(*token.Token))
					b.WriteString(",")
				}
			case 2:
				if f.Val.Len() > 0 {
					b.WriteString(f.Name + ":[")
					for i := 0; i < f.Val.Len(); i++ {
						tok(f.Val.Index(i).Interface().(*token.Token))
						b.WriteString(",")
					}
					b.WriteString("],")
				}
			case 3:
				if !f.Val.IsNil() {
					b.WriteString(f.Name + ":")
					rec(f.Val.Interface().(ast.Vertex))
					b.WriteString(",")
				}
			case 4:
				if f.Val.Len() > 0 {
					b.WriteString(f.Name + ":[")
					for i := 0; i < f.Val.Len(); i++ {
						e := f.Val.Index(i)
						if e.IsNil() {
							b.WriteString("nil,")
							continue
						}
						rec(e.Interface().(ast.Vertex))
						b.WriteString(",")
					}
					b.WriteString("],")
				}
			case 5:
				if !f.Val.IsNil() {
					fmt.Fprintf(&b, "%s:%q,", f.Name, f.Val.Bytes())
				}
			}
		}
		b.WriteString("}")
	}
	rec(v)
	return b.String()
}

type span struct {
	s, e int
	t    *token.Token
	ff   bool
}

// tokenSpans: all tokens + free-floating tokens with a position, sorted by start offset.
func tokenSpans(root ast.Vertex) (sp []span, noPos int) {
	for _, t := range allTokens(root) {
		for _, ff := range t.FreeFloating {
			if ff.Position == nil {
				noPos++
				continue
			}
			sp = append(sp, span{ff.Position.StartPos, ff.Position.EndPos, ff, true})
		}
		if t.Position == nil {
			if len(t.Value) > 0 {
				noPos++
			}
			continue
		}
		sp = append(sp, span{t.Position.StartPos, t.Position.EndPos, t, false})
	}
	sort.SliceStable(sp, func(i, j int) bool {
		if sp[i].s != sp[j].s {
			return sp[i].s < sp[j].s
		}
		return sp[i].e < sp[j].e
	})
	return
}

// lineOf: independent line oracle — 1 + number of line terminators (LF, CRLF, lone CR) that end at or before offset p.
func lineStartsOf(src []byte) []int {
	var st []int
	for i := 0; i < len(src); i++ {
		if src[i] == '\n' {
			st = append(st, i+1)
		} else if src[i] == '\r' && (i+1 == len(src) || src[i+1] != '\n') {
			st = append(st, i+1)
		}
	}
	return st
}

func lineAt(starts []int, p int) int {
	// number of line starts <= p, plus one
	return 1 + sort.Search(len(starts), func(i int) bool { return starts[i] > p })
}

// cloneVertex: a deep copy of the node structure (new node objects; tokens, positions and byte values shared).
func cloneVertex(v ast.Vertex) ast.Vertex {
	if isNilVertex(v) {
		return v
	}
	rv := reflect.ValueOf(v)
	if rv.Kind() != reflect.Ptr {
		return v
	}
	nv := reflect.New(rv.Elem().Type())
	nv.Elem().Set(rv.Elem())
	for _, f := range fieldsOf(nv.Interface().(ast.Vertex)) {
		switch f.Sort {
		case 3:
			if !f.Val.IsNil() {
				c := f.Val.Interface().(ast.Vertex)
				if !isNilVertex(c) {
					f.Val.Set(reflect.ValueOf(cloneVertex(c)))
				}
			}
		case 4:
			if !f.Val.IsNil() {
				ns := reflect.MakeSlice(f.Val.Type(), f.Val.Len(), f.Val.Len())
				for i := 0; i < f.Val.Len(); i++ {
					e := f.Val.Index(i)
					if !e.IsNil() {
						c := e.Interface().(ast.Vertex)
						if !isNilVertex(c) {
							ns.Index(i).Set(reflect.ValueOf(cloneVertex(c)))
							continue
						}
					}
					ns.Index(i).Set(e)
				}
				f.Val.Set(ns)
			}
		}
	}
	return nv.Interface().(ast.Vertex)
}

