//go:build verif

package main

import (
	"bytes"
	"fmt"
	"strings"

	"github.com/z7zmey/php-parser/pkg/ast"
	"github.com/z7zmey/php-parser/pkg/token"
)

func init() {
	commands["oracle-C17"] = oracleC17
	oracles["C17"] = evalC17
}

// formatted: parse src, format, print.  ok=false with a reason when src is not a valid program.
func formatted(src []byte, a, b uint64) (text string, structure string, reject string, fail *Failure) {
	po := parseSafe(src, ver(a, b), true)
	if po.Panic != "" || po.Root == nil || len(po.Errs) > 0 {
		return "", "", "not-error-free", nil
	}
	structure = structStr(po.Root)
	if p := formatSafe(po.Root); p != "" {
		site := "format-panic:" + firstFormatterFrame(p)
		return "", structure, "", &Failure{Site: site, Kind: "input", Detail: "formatter panics: " + clip(p, 200)}
	}
	if where, what := survivingTrivia(po.Root); where != "" {
		site := "source-trivia-survives" + constructTag(structure)
		if constructTag(structure) == "" {
			site += ":" + where
		}
		return "", structure, "", &Failure{Site: site, Kind: "input", Detail: "after formatting, " + where + " still carries " + what}
	}
	out, pan := printStr(po.Root)
	if pan != "" {
		return "", structure, "", &Failure{Site: "print-panic-after-format", Kind: "input", Detail: clip(pan, 200)}
	}
	return out, structure, "", nil
}

// survivingTrivia: the first token of a formatted tree whose free-floating list holds anything the
// formatter does not make itself (blanks, one newline, indentation, "<?php ", the halt-compiler tail).
// Covers on parsed trees what the coverage theorem of Props/Formatter.lean leaves to the companion tokens.
func survivingTrivia(root ast.Vertex) (where, what string) {
	canonical := func(f *token.Token) bool {
		switch f.ID {
		case token.T_HALT_COMPILER:
			return true
		case token.T_OPEN_TAG:
			return string(f.Value) == "<?php "
		case token.T_WHITESPACE:
			v := string(f.Value)
			return v == " " || v == "\n" || (len(v) > 0 && len(v)%4 == 0 && strings.Trim(v, " ") == "")
		}
		return false
	}
	walkTree(root, func(v ast.Vertex, _ int) {
		if where != "" {
			return
		}
		for _, f := range fieldsOf(v) {
			var ts []*token.Token
			switch f.Sort {
			case 1:
				if !f.Val.IsNil() {
					ts = append(ts, f.Val.Interface().(*token.Token))
				}
			case 2:
				for i := 0; i < f.Val.Len(); i++ {
					if !f.Val.Index(i).IsNil() {
						ts = append(ts, f.Val.Index(i).Interface().(*token.Token))
					}
				}
			}
			for _, t := range ts {
				for _, ff := range t.FreeFloating {
					if ff != nil && !canonical(ff) {
						where = kindName(v) + "." + f.Name
						what = fmt.Sprintf("%q (id %d)", clip(string(ff.Value), 40), int(ff.ID))
						return
					}
				}
			}
		}
	}, 0)
	return
}

func firstFormatterFrame(p string) string {
	if i := strings.LastIndex(p, " @"); i >= 0 {
		return strings.TrimPrefix(p[i+2:], "pkg/visitor/formatter.")
	}
	return "other"
}

// evalC17: src = "base \x00 variant" (same tokens, other trivia).  (1) the formatted text of base
// re-parses without errors into the same structure; (2) formatting the formatted text changes nothing;
// (3) base and variant format to the same text.
func evalC17(src []byte, cfg string) (o Outcome) {
	sp := strings.SplitN(string(src), "\x00", 2)
	a, b := parseVer(cfg)
	base := []byte(sp[0])
	fail := func(f *Failure) {
		f.Config = cfg
		if f.Input == "" {
			f.Input = printable(base)
		}
		f.Hex = fmt.Sprintf("%x", base)
		o.Fails = append(o.Fails, *f)
	}
	t1, s1, rej, f := formatted(base, a, b)
	if rej != "" {
		o.Reject = rej
		return
	}
	o.Nontrivial = true
	if f != nil {
		fail(f)
		return
	}
	shape := constructTag(s1)
	// the recorded inline-HTML findings: the formatter puts an empty `?>` statement in front of inline HTML (another
	// structure, also for a file that is code, one close tag and HTML to the end), and HTML at the start of a file,
	// HTML followed by more PHP or beginning with a line end comes out as text that does not parse.  For "code, one
	// close tag, plain HTML to the end" the formatted text DOES parse on the pinned tree: a parse failure there is
	// not the recorded finding
	parseShape := shape
	if shape == ":inline-html" && trailingHTMLOnly(base) {
		parseShape = ""
	}
	if shape == "" {
		shape = sourceTag(base, cfg)
		parseShape = shape
	}
	// (1) preserve
	po := parseSafe([]byte(t1), ver(a, b), true)
	if po.Panic != "" || po.Root == nil || len(po.Errs) > 0 {
		fail(&Failure{Site: "formatted-does-not-parse" + parseShape, Kind: "input", Detail: fmt.Sprintf("formatted text %q re-parses with: %s", clip(t1, 160), clip(errsStr(po.Errs)+po.Panic, 160))})
		return
	}
	if s2 := structStr(po.Root); s2 != s1 {
		i := firstDiff([]byte(s1), []byte(s2))
		lo := maxInt(0, i-40)
		fail(&Failure{Site: "structure-changed" + shape, Kind: "input", Detail: fmt.Sprintf("formatted text %q has another structure: source …%s formatted …%s", clip(t1, 120), clip(s1[lo:], 100), clip(s2[lo:], 100))})
		return
	}
	// (2) idempotent
	t2, _, rej2, f2 := formatted([]byte(t1), a, b)
	if f2 != nil {
		fail(f2)
		return
	}
	if rej2 == "" && t2 != t1 {
		i := firstDiff([]byte(t1), []byte(t2))
		lo := maxInt(0, i-20)
		fail(&Failure{Site: "not-idempotent" + shape, Kind: "input", Detail: fmt.Sprintf("formatting formatted text changes it at %d: …%q becomes …%q", i, clip(t1[lo:], 60), clip(t2[lo:], 60))})
	}
	// (3) canonical
	if len(sp) == 2 && sp[1] != "" {
		t3, s3, rej3, f3 := formatted([]byte(sp[1]), a, b)
		if f3 != nil || rej3 != "" || s3 != s1 {
			return // the variant is not the same program (generator rejection); C08 reports that
		}
		if t3 != t1 {
			i := firstDiff([]byte(t1), []byte(t3))
			lo := maxInt(0, i-20)
			fail(&Failure{Site: "layout-dependent" + shape, Kind: "input", Input: printable([]byte(sp[1])), Detail: fmt.Sprintf("two layouts of one program format differently at %d: …%q vs …%q (other layout: %s)", i, clip(t1[lo:], 60), clip(t3[lo:], 60), printable(base))})
		}
	}
	return
}

// constructTag: constructs with a recorded formatter finding get their own site suffix
func constructTag(structure string) string {
	switch {
	case strings.Contains(structure, "StmtInlineHtml"):
		return ":inline-html"
	}
	return ""
}

// trailingHTMLOnly: `<?php … ?>html` — code first, exactly one close tag, then HTML that neither starts with a line end
// nor opens PHP again
func trailingHTMLOnly(src []byte) bool {
	s := string(src)
	if !strings.HasPrefix(s, "<?php") || strings.Count(s, "?>") != 1 {
		return false
	}
	rest := s[strings.Index(s, "?>")+2:]
	return rest != "" && rest[0] != '\n' && rest[0] != '\r' && !strings.Contains(rest, "<?") && !strings.Contains(s, "?>\"") && !strings.Contains(s, "?>'")
}

// sourceTag: as constructTag, decided on the source text / version
func sourceTag(src []byte, cfg string) string {
	s := string(src)
	switch {
	case strings.Contains(s, "${ ") || strings.Contains(s, "${\t") || (strings.Contains(s, "${") && (strings.Contains(s, " ]") || strings.Contains(s, " }"))):
		return ":dollar-brace-expression"
	case strings.HasPrefix(cfg, "5.") && strings.Contains(s, "<<<"):
		return ":php5-heredoc-inline"
	case strings.Contains(strings.ToLower(s), "__halt_compiler"):
		return ":halt-compiler-comment"
	}
	return ""
}

func oracleC17() *Result {
	r := &Result{Rule: "valid sources (grammar-driven sentences of both grammars with per-production targeting, corpus, edge list) and one re-rendering of the same tokens with other trivia: real parse -> real formatter -> real printer; the formatted text must re-parse without errors into the same structure (reflection projection), formatting it again must change nothing, and both layouts must format to the same text; a formatter panic is a failure. Non-trivial = distinct error-free source"}
	rng := newRand("C17")
	var tasks []Task
	add := func(base, variant []byte, v, tag string) {
		tasks = append(tasks, Task{Oracle: "C17", Cfg: v, Src: append(append(append([]byte(nil), base...), 0), variant...), Tag: tag})
	}
	// code, one close tag, HTML to the end — after statements with empty bodies, alternative syntax, header semicolons
	for _, st := range []string{"for ($i = 0; $i < 3; $i++): endfor", "for (;;) {}", "for ($i = 0; $i < 3; $i++) {}", "while ($a): endwhile", "while ($a) {}", "if ($a): endif", "if ($a) {} else {}",
		"foreach ($a as $b): endforeach", "foreach ($a as $k => $v) {}", "switch ($a): endswitch", "switch ($a) {}", "declare(ticks=1): enddeclare", "echo 1", "echo 1;", "$a = 1; {}", "function f() {}", "class A {}", "try {} finally {}", "do {} while (0)"} {
		for _, gap := range []string{" ", ""} {
			src := []byte("<?php " + st + gap + "?>done")
			add(src, nil, "7.4", "trailing-html")
			add([]byte("<?php\n"+st+"\n?>done <b>x</b>"), src, "7.4", "trailing-html")
		}
	}
	for _, c := range regressionInputs("C17") {
		add(c, nil, "7.4", "regression")
	}
	for _, e := range edgeSources {
		add([]byte(e), nil, "7.4", "edge")
	}
	for _, e := range chainSources {
		add([]byte(e), nil, "7.4", "chains")
		add([]byte(e), nil, "5.6", "chains")
	}
	for _, s := range loadCorpus() {
		fam := s.Family
		if fam == 0 {
			fam = 7
		}
		v := map[int]string{5: "5.6", 7: "7.4"}[fam]
		var variant []byte
		if tv := withTriviaKinds(rng, s.Src, fam, -1); len(tv) > 0 {
			variant = tv[0]
		}
		add(s.Src, variant, v, "corpus")
	}
	for _, fam := range []int{7, 5} {
		v := map[int]string{5: "5.6", 7: "7.4"}[fam]
		n := 150
		per := 1
		if opts.Tier == "thorough" {
			n, per = 3000, 4
		}
		ss := genCfg(rng, fam, n, nil, lastCfgStats)
		if g := loadCfg(fam); g != nil {
			for _, p := range g.Prods {
				ss = append(ss, genCfg(rng, fam, per, []int{p.N}, lastCfgStats)...)
			}
		}
		for _, s := range ss {
			var variant []byte
			if tv := withTriviaKinds(rng, s.Src, fam, -1); len(tv) > 0 {
				variant = tv[0]
			}
			add(s.Src, variant, v, "g-cfg")
		}
	}
	// several constructs in one file (formatter state that outlives a statement)
	nc := 200
	if opts.Tier == "thorough" {
		nc = 3000
	}
	for _, b := range docCombos(rng, nc) {
		add(b, nil, "7.4", "doc-combo")
	}
	for i, b := range signChainSources() {
		if opts.Tier == "thorough" || i%3 == 0 {
			add(b, nil, "7.4", "sign-chain")
			add(b, nil, "5.6", "sign-chain")
		}
	}
	var pool [][]byte
	for _, t := range tasks {
		if t.Cfg == "7.4" {
			if i := bytes.IndexByte(t.Src, 0); i > 0 {
				pool = append(pool, t.Src[:i])
			}
		}
	}
	for _, b := range combineSources(rng, pool, nc) {
		add(b, nil, "7.4", "combined")
	}
	runOracle(r, tasks)
	return r
}
