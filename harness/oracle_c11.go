//go:build verif

package main

import (
	"bytes"
	"encoding/json"
	"fmt"
	"os"
	"os/exec"
	"path/filepath"
	"strings"
	"sync"

	"github.com/z7zmey/php-parser/pkg/ast"
)

func init() {
	commands["oracle-C11"] = oracleC11
	commands["c11-worker"] = c11Worker
}

type c11Task struct {
	Src []byte
	Maj uint64
	Min uint64
}

// pipelineFingerprint: parse -> print -> dump -> traverse -> resolve, everything observable hashed.
func pipelineFingerprint(t c11Task) string {
	po := parseSafe(t.Src, ver(t.Maj, t.Min), true)
	if po.Panic != "" {
		return "panic:" + po.Panic
	}
	var root ast.Vertex = po.Root
	if root == nil {
		return "nil|" + errsStr(po.Errs)
	}
	pr, _ := printStr(root)
	du, _ := dumpStr(root, true, true)
	seen, _ := traverseRecord(root)
	rs, _ := resolveStr(root)
	return hashKey(fullStr(root, true), errsStr(po.Errs), pr, du, fmt.Sprint(len(seen)), rs)
}

// c11-worker (built with -race): sequential baseline, then N goroutines over the same tasks.
func c11Worker() *Result {
	r := &Result{}
	rng := newRand("C11")
	var tasks []c11Task
	vers := [][2]uint64{{5, 6}, {7, 0}, {7, 2}, {7, 3}, {7, 4}, {5, 3}}
	srcs := [][]byte{}
	for _, e := range edgeSources {
		srcs = append(srcs, []byte(e))
	}
	for _, e := range nsSources {
		srcs = append(srcs, []byte(e))
	}
	for _, s := range loadCorpus() {
		if len(s.Src) < 20000 {
			srcs = append(srcs, s.Src)
		}
	}
	limit := 400
	if opts.Tier == "thorough" {
		limit = 4000
	}
	for i, s := range srcs {
		if i >= limit {
			break
		}
		v := vers[rng.Intn(len(vers))]
		tasks = append(tasks, c11Task{s, v[0], v[1]})
	}
	// the same input twice (determinism) and long inputs (pool blocks)
	long := bytes.Repeat([]byte("<?php namespace A; use B\\C; function f(C $x): C { return new C([1, 2, 3], \"a $x[0] {$y->z}\"); }\n"), 120)
	tasks = append(tasks, c11Task{long, 7, 4}, c11Task{long, 7, 4}, c11Task{long, 5, 6})
	base := make([]string, len(tasks))
	for i, t := range tasks {
		base[i] = pipelineFingerprint(t)
	}
	for _, n := range []int{4, 16, 64} {
		got := make([]string, len(tasks))
		var wg sync.WaitGroup
		ch := make(chan int, len(tasks))
		order := rng.Perm(len(tasks))
		for _, i := range order {
			ch <- i
		}
		close(ch)
		for g := 0; g < n; g++ {
			wg.Add(1)
			go func() {
				defer wg.Done()
				for i := range ch {
					got[i] = pipelineFingerprint(tasks[i])
				}
			}()
		}
		wg.Wait()
		for i := range tasks {
			r.Evaluations++
			if got[i] != base[i] {
				r.fail(Failure{Site: "concurrent-differs", Kind: "history", Input: printable(tasks[i].Src), Config: fmt.Sprintf("%d.%d goroutines=%d", tasks[i].Maj, tasks[i].Min, n),
					Detail: "result of the concurrent pipeline differs from the sequential baseline"})
			}
		}
	}
	seen := map[string]bool{}
	for i := range tasks {
		k := hashKey(string(tasks[i].Src), fmt.Sprint(tasks[i].Maj, tasks[i].Min))
		if !seen[k] && len(tasks[i].Src) > 0 {
			seen[k] = true
			r.DistinctNontrivial++
		}
	}
	if base[len(base)-3] != base[len(base)-2] {
		r.fail(Failure{Site: "nondeterministic", Kind: "input", Input: "long input twice", Detail: "parsing the same input twice gave different results"})
	}
	r.sample(map[string]string{"pipelines": fmt.Sprint(len(tasks)), "goroutines": "4,16,64", "example": printable(tasks[0].Src)})
	return r
}

// oracle-C11 runs the race-instrumented worker binary and folds its verdict.
func oracleC11() *Result {
	r := &Result{Rule: "binary built with -race: parse -> print -> dump -> traverse -> resolve pipelines on different inputs and versions run on 4, 16 and 64 goroutines, every result compared with the sequential baseline; the same input parsed twice compared; any data race report of the Go race detector is a failure. Non-trivial = distinct non-empty (input, version) pipeline"}
	race := filepath.Join(opts.Verif, "bin", "harness-race")
	if _, err := os.Stat(race); err != nil {
		r.fail(Failure{Site: "no-race-binary", Kind: "input", Detail: "bin/harness-race missing (go build -race failed?)"})
		return r
	}
	tmp := filepath.Join(opts.Verif, ".cache", "c11-worker.json")
	os.Remove(tmp)
	cmd := exec.Command(race, "c11-worker", "-tier", opts.Tier, "-seed", fmt.Sprint(opts.Seed), "-out", tmp, "-verif", opts.Verif, "-repo", opts.Repo)
	cmd.Env = append(os.Environ(), "GORACE=halt_on_error=0 exitcode=66")
	var stderr bytes.Buffer
	cmd.Stderr = &stderr
	err := cmd.Run()
	se := stderr.String()
	if b, e := os.ReadFile(tmp); e == nil {
		var wr Result
		if json.Unmarshal(b, &wr) == nil {
			r.Evaluations, r.DistinctNontrivial, r.Samples = wr.Evaluations, wr.DistinctNontrivial, wr.Samples
			r.Failures = append(r.Failures, wr.Failures...)
		}
	} else {
		r.fail(Failure{Site: "worker-crashed", Kind: "input", Detail: clip(se, 1500) + fmt.Sprint(err)})
	}
	nraces := strings.Count(se, "WARNING: DATA RACE")
	r.stat("data_race_reports", nraces)
	if nraces > 0 {
		// name the first /repo frame of the first report
		site := "data-race"
		for _, l := range strings.Split(se, "\n") {
			l = strings.TrimSpace(l)
			if strings.HasPrefix(l, "github.com/z7zmey/php-parser/") {
				site = "data-race:" + strings.TrimPrefix(strings.SplitN(l, "(", 2)[0], "github.com/z7zmey/php-parser/")
				break
			}
		}
		r.fail(Failure{Site: site, Kind: "history", Input: "concurrent pipelines (see rule)", Detail: clip(se, 3000)})
	}
	return r
}
