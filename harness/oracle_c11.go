//go:build verif

package main

import (
	"bytes"
	"encoding/json"
	"fmt"
	"os"
	"os/exec"
	"path/filepath"
	"strings"
	"sync"

	"github.com/z7zmey/php-parser/pkg/ast"
)

func init() {
	commands["oracle-C11"] = oracleC11
	commands["c11-worker"] = c11Worker
	commands["c11-alone"] = c11Alone
}

// c11-alone: the pipeline of ONE task in a process of its own ("the result obtained when the same work is
// done alone"): -file = tasks as JSON, -only = index.
func c11Alone() *Result {
	var tasks []c11Task
	b, err := os.ReadFile(opts.File)
	if err != nil || json.Unmarshal(b, &tasks) != nil {
		fmt.Println("bad-tasks")
		return &Result{}
	}
	var i int
	fmt.Sscan(opts.Only, &i)
	if i < 0 || i >= len(tasks) {
		fmt.Println("bad-index")
		return &Result{}
	}
	fmt.Println("fp " + pipelineFingerprint(tasks[i]))
	return &Result{}
}

// aloneBaseline computes every task's fingerprint in a fresh process, 16 at a time.
func aloneBaseline(tasks []c11Task) []string {
	self, err := os.Executable()
	if err != nil {
		return nil
	}
	tf := filepath.Join(opts.Verif, ".cache", "c11-tasks.json")
	b, _ := json.Marshal(tasks)
	if os.WriteFile(tf, b, 0o644) != nil {
		return nil
	}
	out := make([]string, len(tasks))
	sem := make(chan struct{}, 16)
	var wg sync.WaitGroup
	for i := range tasks {
		wg.Add(1)
		sem <- struct{}{}
		go func(i int) {
			defer wg.Done()
			defer func() { <-sem }()
			cmd := exec.Command(self, "c11-alone", "-file", tf, "-only", fmt.Sprint(i), "-verif", opts.Verif, "-repo", opts.Repo)
			cmd.Env = append(os.Environ(), "GORACE=halt_on_error=0 exitcode=0")
			o, _ := cmd.Output()
			for _, l := range strings.Split(string(o), "\n") {
				if strings.HasPrefix(l, "fp ") {
					out[i] = l[3:]
				}
			}
		}(i)
	}
	wg.Wait()
	return out
}

type c11Task struct {
	Src []byte
	Maj uint64
	Min uint64
}

// pipelineFingerprint: parse -> print -> dump -> traverse -> resolve, everything observable hashed.
func pipelineFingerprint(t c11Task) string {
	po := parseSafe(t.Src, ver(t.Maj, t.Min), true)
	if po.Panic != "" {
		return "panic:" + po.Panic
	}
	var root ast.Vertex = po.Root
	if root == nil {
		return "nil|" + errsStr(po.Errs)
	}
	pr, _ := printStr(root)
	du, _ := dumpStr(root, true, true)
	seen, _ := traverseRecord(root)
	rs, _ := resolveStr(root)
	return hashKey(fullStr(root, true), errsStr(po.Errs), pr, du, fmt.Sprint(len(seen)), rs)
}

// c11-worker (built with -race): sequential baseline, then N goroutines over the same tasks.
func c11Worker() *Result {
	r := &Result{}
	rng := newRand("C11")
	var tasks []c11Task
	vers := [][2]uint64{{5, 6}, {7, 0}, {7, 2}, {7, 3}, {7, 4}, {5, 3}}
	srcs := [][]byte{}
	for _, e := range edgeSources {
		srcs = append(srcs, []byte(e))
	}
	for _, e := range nsSources {
		srcs = append(srcs, []byte(e))
	}
	for _, s := range loadCorpus() {
		if len(s.Src) < 20000 {
			srcs = append(srcs, s.Src)
		}
	}
	limit := 400
	if opts.Tier == "thorough" {
		limit = 4000
	}
	for i, s := range srcs {
		if i >= limit {
			break
		}
		v := vers[rng.Intn(len(vers))]
		tasks = append(tasks, c11Task{s, v[0], v[1]})
	}
	// the same input twice (determinism) and long inputs (pool blocks)
	long := bytes.Repeat([]byte("<?php namespace A; use B\\C; function f(C $x): C { return new C([1, 2, 3], \"a $x[0] {$y->z}\"); }\n"), 120)
	tasks = append(tasks, c11Task{long, 7, 4}, c11Task{long, 7, 4}, c11Task{long, 5, 6})
	// inputs that end in recovery or in the lexer's error paths: state left behind by one parse (a call stack,
	// a pooled buffer) shows on the next one only when the next one leaves the beaten track
	for _, e := range []string{"<?php } echo 1;\n$b = 2;", "<?php echo \"{$a}\";", "<?php echo \"${a}\"; }", "<?php echo <<<A\n{$a}\nA;\n", "<? } }", "<?php `{$a}`; } $c;",
		"<?php $a = ;", "<?php function f( { } $x;", "<?php \"$a[", "<?php foo(1, 2", "<?php class { }", "<?php 'abc", "<?php /* c", "abc <?= $a ?> } <?php }"} {
		for _, v := range vers {
			tasks = append(tasks, c11Task{[]byte(e), v[0], v[1]})
		}
	}
	// values the parser itself assembles (not slices of the source): keys of negative non-integer offsets in simple
	// interpolation, in many different spellings — shared scratch space behind them shows as a changed value
	for i, off := range []string{"-012", "-00", "-007", "-0", "-99999999999999999999", "-0x1F", "-0b11", "-08", "-0123456789", "-000"} {
		for _, form := range []string{"<?php echo \"$a[%s] x\";", "<?php $s = \"$b[%s]$c[%s]\"; echo <<<A\n$d[%s]\nA;\n"} {
			v := vers[(i+len(form))%len(vers)]
			tasks = append(tasks, c11Task{[]byte(strings.ReplaceAll(form, "%s", off)), v[0], v[1]})
			tasks = append(tasks, c11Task{[]byte(strings.ReplaceAll(form, "%s", off)), 7, 4})
		}
	}
	nerr := 120
	if opts.Tier == "thorough" {
		nerr = 1500
	}
	for i := 0; i < nerr && len(srcs) > 0; i++ {
		s := srcs[rng.Intn(len(srcs))]
		if len(s) < 4 || len(s) > 4000 {
			continue
		}
		a, b := rng.Intn(len(s)), rng.Intn(len(s))
		if a > b {
			a, b = b, a
		}
		v := vers[rng.Intn(len(vers))]
		tasks = append(tasks, c11Task{append(append([]byte(nil), s[:a]...), s[b:]...), v[0], v[1]})
	}
	rng.Shuffle(len(tasks), func(i, j int) { tasks[i], tasks[j] = tasks[j], tasks[i] })
	// "alone": every pipeline in a process of its own
	base := aloneBaseline(tasks)
	if base == nil {
		base = make([]string, len(tasks))
	}
	// one after the other in this process, in two different orders
	for round := 0; round < 2; round++ {
		order := rng.Perm(len(tasks))
		for _, i := range order {
			r.Evaluations++
			fp := pipelineFingerprint(tasks[i])
			if base[i] == "" {
				base[i] = fp
			} else if fp != base[i] {
				r.fail(Failure{Site: "sequential-differs", Kind: "history", Input: printable(tasks[i].Src), Config: fmt.Sprintf("%d.%d after other pipelines in the same process", tasks[i].Maj, tasks[i].Min),
					Detail: "result of the pipeline run after other pipelines in one process differs from its result in a process of its own"})
			}
		}
	}
	for _, n := range []int{4, 16, 64} {
		got := make([]string, len(tasks))
		var wg sync.WaitGroup
		ch := make(chan int, len(tasks))
		order := rng.Perm(len(tasks))
		for _, i := range order {
			ch <- i
		}
		close(ch)
		for g := 0; g < n; g++ {
			wg.Add(1)
			go func() {
				defer wg.Done()
				for i := range ch {
					got[i] = pipelineFingerprint(tasks[i])
				}
			}()
		}
		wg.Wait()
		for i := range tasks {
			r.Evaluations++
			if got[i] != base[i] {
				r.fail(Failure{Site: "concurrent-differs", Kind: "history", Input: printable(tasks[i].Src), Config: fmt.Sprintf("%d.%d goroutines=%d", tasks[i].Maj, tasks[i].Min, n),
					Detail: "result of the concurrent pipeline differs from the sequential baseline"})
			}
		}
	}
	// different inputs that are neighbours in one buffer of the caller (a batch read into one allocation, handed
	// out as sub-slices whose capacity reaches into the next input): still different inputs
	{
		var batch []byte
		offs := []int{0}
		for i := range tasks {
			batch = append(batch, tasks[i].Src...)
			offs = append(offs, len(batch))
		}
		pristine := append([]byte(nil), batch...)
		shared := make([]c11Task, len(tasks))
		for i := range tasks {
			shared[i] = c11Task{batch[offs[i]:offs[i+1]], tasks[i].Maj, tasks[i].Min}
		}
		got := make([]string, len(tasks))
		var wg sync.WaitGroup
		ch := make(chan int, len(tasks))
		for _, i := range rng.Perm(len(tasks)) {
			ch <- i
		}
		close(ch)
		for g := 0; g < 16; g++ {
			wg.Add(1)
			go func() {
				defer wg.Done()
				for i := range ch {
					got[i] = pipelineFingerprint(shared[i])
				}
			}()
		}
		wg.Wait()
		for i := range tasks {
			r.Evaluations++
			if got[i] != base[i] {
				r.fail(Failure{Site: "concurrent-differs:shared-buffer", Kind: "history", Input: printable(tasks[i].Src), Config: fmt.Sprintf("%d.%d goroutines=16, inputs are adjacent sub-slices of one buffer", tasks[i].Maj, tasks[i].Min),
					Detail: "result of the pipeline on an input that shares its backing array with the other inputs differs from its result alone"})
			}
		}
		if !bytes.Equal(batch, pristine) {
			j := 0
			for j < len(batch) && batch[j] == pristine[j] {
				j++
			}
			r.fail(Failure{Site: "shared-buffer-modified", Kind: "history", Detail: fmt.Sprintf("the buffer holding all inputs was modified at offset %d (was %q, is %q)", j, pristine[j], batch[j])})
		}
	}
	seen := map[string]bool{}
	for i := range tasks {
		k := hashKey(string(tasks[i].Src), fmt.Sprint(tasks[i].Maj, tasks[i].Min))
		if !seen[k] && len(tasks[i].Src) > 0 {
			seen[k] = true
			r.DistinctNontrivial++
		}
	}
	first := map[string]int{}
	for i := range tasks {
		k := hashKey(string(tasks[i].Src), fmt.Sprint(tasks[i].Maj, tasks[i].Min))
		if j, ok := first[k]; ok {
			if base[i] != base[j] {
				r.fail(Failure{Site: "nondeterministic", Kind: "input", Input: printable(tasks[i].Src), Detail: "parsing the same input twice gave different results"})
			}
		} else {
			first[k] = i
		}
	}
	r.sample(map[string]string{"pipelines": fmt.Sprint(len(tasks)), "goroutines": "4,16,64", "example": printable(tasks[0].Src)})
	return r
}

// oracle-C11 runs the race-instrumented worker binary and folds its verdict.
func oracleC11() *Result {
	r := &Result{Rule: "binary built with -race: parse -> print -> dump -> traverse -> resolve pipelines on different inputs and versions run on 4, 16 and 64 goroutines, every result compared with the sequential baseline; the same input parsed twice compared; any data race report of the Go race detector is a failure. Non-trivial = distinct non-empty (input, version) pipeline"}
	race := filepath.Join(opts.Verif, "bin", "harness-race")
	if _, err := os.Stat(race); err != nil {
		r.fail(Failure{Site: "no-race-binary", Kind: "input", Detail: "bin/harness-race missing (go build -race failed?)"})
		return r
	}
	tmp := filepath.Join(opts.Verif, ".cache", "c11-worker.json")
	os.Remove(tmp)
	cmd := exec.Command(race, "c11-worker", "-tier", opts.Tier, "-seed", fmt.Sprint(opts.Seed), "-out", tmp, "-verif", opts.Verif, "-repo", opts.Repo)
	cmd.Env = append(os.Environ(), "GORACE=halt_on_error=0 exitcode=66")
	var stderr bytes.Buffer
	cmd.Stderr = &stderr
	err := cmd.Run()
	se := stderr.String()
	if b, e := os.ReadFile(tmp); e == nil {
		var wr Result
		if json.Unmarshal(b, &wr) == nil {
			r.Evaluations, r.DistinctNontrivial, r.Samples = wr.Evaluations, wr.DistinctNontrivial, wr.Samples
			r.Failures = append(r.Failures, wr.Failures...)
		}
	} else {
		r.fail(Failure{Site: "worker-crashed", Kind: "input", Detail: clip(se, 1500) + fmt.Sprint(err)})
	}
	nraces := strings.Count(se, "WARNING: DATA RACE")
	r.stat("data_race_reports", nraces)
	if nraces > 0 {
		// name the first /repo frame of the first report
		site := "data-race"
		for _, l := range strings.Split(se, "\n") {
			l = strings.TrimSpace(l)
			if strings.HasPrefix(l, "github.com/z7zmey/php-parser/") {
				site = "data-race:" + strings.TrimPrefix(strings.SplitN(l, "(", 2)[0], "github.com/z7zmey/php-parser/")
				break
			}
		}
		r.fail(Failure{Site: site, Kind: "history", Input: "concurrent pipelines (see rule)", Detail: clip(se, 3000)})
	}
	return r
}
