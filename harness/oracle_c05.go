//go:build verif

package main

import (
	"fmt"
	"strings"

	"github.com/z7zmey/php-parser/pkg/ast"
	"github.com/z7zmey/php-parser/pkg/token"
)

func init() {
	commands["oracle-C05"] = oracleC05
	oracles["C05"] = evalC05
}

type ext struct{ s, e, n int }

// subtreeExtent: min start / max end over the significant tokens of the subtree that have a
// position; excl is a token to leave out (trait adaptation's ';').
func subtreeExtent(v ast.Vertex, excl *token.Token) ext {
	x := ext{-1, -1, 0}
	walkTree(v, func(n ast.Vertex, _ int) {
		for _, t := range ownTokens(n) {
			if t == excl || t.Position == nil {
				continue
			}
			if x.n == 0 || t.Position.StartPos < x.s {
				x.s = t.Position.StartPos
			}
			if x.n == 0 || t.Position.EndPos > x.e {
				x.e = t.Position.EndPos
			}
			x.n++
		}
	}, 0)
	return x
}

// childHasMinus1: a -1 boundary propagated from a child (e.g. a root whose last statement is `try {}`)
func childHasMinus1(v ast.Vertex, start bool) bool {
	for _, c := range childrenOf(v) {
		if p := c.GetPosition(); p != nil && ((start && p.StartPos == -1) || (!start && p.EndPos == -1)) {
			return true
		}
	}
	return false
}

func hasEmptyList(v ast.Vertex) bool {
	for _, f := range fieldsOf(v) {
		if f.Sort == 4 && f.Val.Len() == 0 {
			return true
		}
	}
	return false
}

// evalC05: on error-free parses, every node's position against the extent of its own tokens,
// with the documented conventions, plus nesting, sibling order and line fields.
func evalC05(src []byte, cfg string) (o Outcome) {
	starts := lineStartsOf(src)
	any := false
	for _, vs := range strings.Split(cfg, ",") {
		a, b := parseVer(vs)
		po := parseSafe(src, ver(a, b), true)
		if po.Panic != "" {
			o.Fails = append(o.Fails, Failure{Site: "panic:" + po.Site, Kind: "input", Config: vs, Detail: clip(po.Panic, 200)})
			continue
		}
		if po.Root == nil || len(po.Errs) > 0 {
			continue
		}
		any = true
		var rec func(n ast.Vertex, parent ast.Vertex, ctx string)
		rec = func(n ast.Vertex, parent ast.Vertex, ctx string) {
			k := kindName(n)
			// shapes with a recorded finding get their own site, so that the same kind elsewhere is still reported
			shape := ctx
			if sv, ok := n.(*ast.ScalarEncapsedStringVar); ok && sv.Dim != nil {
				shape = "encaps-var-dim"
			}
			if g, ok := parent.(*ast.StmtGoto); ok && a == 5 && g.Label == n {
				shape = "php5-goto-label"
			}
			fail := func(site, d string) {
				if shape != "" {
					site = site[:strings.Index(site, ":")] + ":" + shape
				}
				o.Fails = append(o.Fails, Failure{Site: site, Kind: "input", Config: vs, Detail: d})
			}
			o.Tags = append(o.Tags, "kind:"+k)
			p := n.GetPosition()
			var excl *token.Token
			switch t := n.(type) {
			case *ast.StmtTraitUseAlias:
				excl = t.SemiColonTkn
			case *ast.StmtTraitUsePrecedence:
				excl = t.SemiColonTkn
			}
			x := subtreeExtent(n, excl)
			if p == nil {
				if x.n > 0 {
					fail("pos-nil:"+k, fmt.Sprintf("%s has tokens at %d..%d but no position", k, x.s, x.e))
				}
			} else if x.n > 0 {
				okS := p.StartPos == x.s || (p.StartPos == -1 && (hasEmptyList(n) || childHasMinus1(n, true)))
				okE := p.EndPos == x.e || (p.EndPos == -1 && (hasEmptyList(n) || childHasMinus1(n, false)))
				if !okS {
					fail("pos-start:"+k, fmt.Sprintf("%s StartPos %d, first token of its subtree starts at %d (…%q)", k, p.StartPos, x.s, clip(string(src[x.s:]), 24)))
				}
				if !okE {
					fail("pos-end:"+k, fmt.Sprintf("%s EndPos %d, last token of its subtree ends at %d (%q)", k, p.EndPos, x.e, clip(string(src[x.s:x.e]), 40)))
				}
				if p.StartPos >= 0 && p.StartPos <= len(src) {
					if want := lineAt(starts, p.StartPos); p.StartLine != want {
						fail("pos-startline:"+k, fmt.Sprintf("%s StartLine %d, offset %d is on line %d", k, p.StartLine, p.StartPos, want))
					}
				}
				if p.EndPos > 0 && p.EndPos <= len(src) {
					if want := lineAt(starts, p.EndPos-1); p.EndLine != want {
						fail("pos-endline:"+k, fmt.Sprintf("%s EndLine %d, offset %d is on line %d", k, p.EndLine, p.EndPos-1, want))
					}
				}
			}
			// children within parent, siblings disjoint and in source order inside list fields
			for _, f := range fieldsOf(n) {
				if f.Sort != 4 {
					continue
				}
				prev := -1
				for i := 0; i < f.Val.Len(); i++ {
					e := f.Val.Index(i)
					if e.IsNil() {
						continue
					}
					c := e.Interface().(ast.Vertex)
					if isNilVertex(c) || c.GetPosition() == nil {
						continue
					}
					cp := c.GetPosition()
					if cp.StartPos >= 0 && cp.StartPos < prev {
						fail("sibling-order:"+k+"."+f.Name, fmt.Sprintf("%s.%s[%d] starts at %d before the previous sibling ends at %d", k, f.Name, i, cp.StartPos, prev))
					}
					if cp.EndPos > prev {
						prev = cp.EndPos
					}
				}
			}
			for _, c := range childrenOf(n) {
				cp := c.GetPosition()
				if p != nil && cp != nil && p.StartPos >= 0 && p.EndPos >= 0 && cp.StartPos >= 0 && cp.EndPos >= 0 {
					if cp.StartPos < p.StartPos || cp.EndPos > p.EndPos {
						fail("nesting:"+k+">"+kindName(c), fmt.Sprintf("child %s %d..%d not within parent %s %d..%d", kindName(c), cp.StartPos, cp.EndPos, k, p.StartPos, p.EndPos))
					}
				}
				rec(c, n, ctx)
			}
		}
		rec(po.Root, nil, "")
	}
	if !any {
		o.Reject = "not-error-free"
		return
	}
	o.Nontrivial = true
	return
}

func oracleC05() *Result {
	r := &Result{Rule: "real parse, error-free inputs only; reflection walk: every node's StartPos/EndPos against the min/max offsets of the significant tokens in its subtree (conventions: nil position only without tokens, -1 only next to an empty list field, trait adaptation excludes its ';'), line fields against an independent line oracle, children within parents, list siblings disjoint and ordered. Generators: corpus, trivia variants, edge list, G-cfg. Non-trivial = distinct error-free input; node kinds seen are counted in stats.tags"}
	rng := newRand("C05")
	versions := "5.6,7.4"
	if opts.Tier == "thorough" {
		versions = "5.0,5.6,7.0,7.2,7.3,7.4"
	}
	var tasks []Task
	add := func(b []byte, tag string) {
		tasks = append(tasks, Task{Oracle: "C05", Cfg: versions, Src: b, Tag: tag})
	}
	for _, c := range regressionInputs("C05") {
		add(c, "regression")
	}
	for _, e := range chainSources {
		add([]byte(e), "chains")
	}
	for _, e := range edgeSources {
		add([]byte(e), "edge")
	}
	for _, s := range loadCorpus() {
		add(s.Src, "corpus")
		for _, v := range triviaVariants(s.Src, rng, 3) {
			add(v, "corpus-trivia")
		}
	}
	for _, s := range cfgSentences(rng) {
		add(s, "g-cfg")
	}
	runOracle(r, tasks)
	return r
}
