//go:build verif

package main

import (
	"bytes"
	"fmt"
	goast "go/ast"
	goparser "go/parser"
	gotoken "go/token"
	"reflect"
	"regexp"
	"strconv"
	"strings"

	"github.com/z7zmey/php-parser/pkg/ast"
	"github.com/z7zmey/php-parser/pkg/position"
	"github.com/z7zmey/php-parser/pkg/token"
	"github.com/z7zmey/php-parser/pkg/visitor/nsresolver"
	"github.com/z7zmey/php-parser/pkg/visitor/traverser"
)

func init() {
	commands["oracle-C12"] = oracleC12
	commands["oracle-C15"] = oracleC15
	commands["oracle-C16"] = oracleC16
	commands["oracle-C13"] = oracleC13
	oracles["C12p"] = evalC12parsed
	oracles["C16p"] = evalC16parsed
	oracles["C13"] = evalC13
}

func traverseRecord(root ast.Vertex) (seen []ast.Vertex, pan string) {
	defer func() {
		if e := recover(); e != nil {
			pan = fmt.Sprint(e)
		}
	}()
	rec := &Recorder{}
	traverser.NewTraverser(rec).Traverse(root)
	return rec.Seen, ""
}

func preorder(root ast.Vertex) []ast.Vertex {
	var out []ast.Vertex
	walkTree(root, func(n ast.Vertex, _ int) { out = append(out, n) }, 0)
	return out
}

func samePtr(a, b ast.Vertex) bool {
	return reflect.ValueOf(a).Pointer() == reflect.ValueOf(b).Pointer() && reflect.TypeOf(a) == reflect.TypeOf(b)
}

// checkTraversal: C12's statement on one tree.  Returns "" or a description.
func checkTraversal(root ast.Vertex) (site, detail string) {
	want := preorder(root)
	got, pan := traverseRecord(root)
	if pan != "" {
		return "traverse-panic", pan
	}
	for i := 0; i < len(want) || i < len(got); i++ {
		if i >= len(got) {
			return "missed:" + kindName(want[i]), fmt.Sprintf("node #%d %s of the tree is never handed to the visitor (visited %d of %d)", i, kindName(want[i]), len(got), len(want))
		}
		if i >= len(want) {
			return "extra:" + kindName(got[i]), fmt.Sprintf("visit #%d %s is not a node of the tree / is visited again", i, kindName(got[i]))
		}
		if !samePtr(want[i], got[i]) {
			// name the parent kind for a stable site
			return "order", fmt.Sprintf("visit #%d is %s, the tree's preorder has %s there", i, kindName(got[i]), kindName(want[i]))
		}
	}
	return "", ""
}

// sharedNode: a node object reachable along two paths.
func sharedNode(root ast.Vertex) string {
	seen := map[uintptr]bool{}
	res := ""
	walkTree(root, func(n ast.Vertex, _ int) {
		p := reflect.ValueOf(n).Pointer()
		if seen[p] && res == "" {
			res = kindName(n)
		}
		seen[p] = true
	}, 0)
	return res
}

func oracleC12() *Result {
	r := &Result{Rule: "recording visitor (generated from the schema) driven by the real Traverser vs a reflection preorder walk in struct declaration order (= printer order, Lean C12.trav_rows): G-tree instances of every kind x slot present/absent/list lengths/alt-syntax + random masks; parsed corpus / edge / G-cfg trees additionally checked for node objects reachable along two paths. Non-trivial = distinct tree with >= 2 nodes"}
	rng := newRand("C12")
	kinds := map[string]bool{}
	for _, g := range gtreeCases(rng, opts.Tier == "thorough") {
		r.Evaluations++
		n := len(preorder(g.Root))
		if n >= 2 {
			r.DistinctNontrivial++
		}
		kinds[g.Kind] = true
		if site, d := checkTraversal(g.Root); site != "" {
			r.fail(Failure{Site: "gtree:" + g.Kind + ":" + site, Kind: "tree", Input: g.Kind + " [" + g.Desc + "]", Detail: d})
		}
		if r.Evaluations%1500 == 1 {
			r.sample(map[string]string{"gtree": g.Kind, "slots": g.Desc, "nodes": strconv.Itoa(n)})
		}
	}
	r.stat("gtree_kinds", len(kinds))
	r.stat("gtree_cases", r.Evaluations)
	var tasks []Task
	add := func(b []byte, tag string) {
		tasks = append(tasks, Task{Oracle: "C12p", Cfg: "5.6,7.4", Src: b, Tag: tag})
	}
	for _, c := range regressionInputs("C12") {
		add(c, "regression")
	}
	for _, e := range edgeSources {
		add([]byte(e), "edge")
	}
	for _, e := range sharingSources {
		add([]byte(e), "sharing")
	}
	for _, e := range chainSources {
		add([]byte(e), "chains")
	}
	nn := 300
	if opts.Tier == "thorough" {
		nn = 5000
	}
	for _, b := range nestedStmtSources(rng, nn) {
		add(b, "nested-stmts")
	}
	for _, b := range longChainSources() {
		add(b, "long-chain")
	}
	for _, s := range loadCorpus() {
		add(s.Src, "corpus")
		if len(s.Src) < 3000 {
			for _, m := range mutations(s.Src, rng, 2) {
				add(m, "mutation")
			}
		}
	}
	for _, s := range cfgSentences(rng) {
		add(s, "g-cfg")
	}
	runOracle(r, tasks)
	return r
}

// sources that repeat a construct several times (a cached / shared node shows only then)
var sharingSources = []string{
	"<?php list(, , $a) = $b; [, $c] = $d; [, $e] = $f;", "<?php [[1, ], [2, ]]; foreach ($r as list(, $n, , $m)) {}", "<?php f(); f(); g(); g();", "<?php $a; $a; $a = $a;",
	"<?php ;;; ", "<?php function f() {} function g() {}", "<?php if ($a) {} if ($a) {} else {} ", "<?php use A, B; use A, B;", "<?php class A {} class B {} new class {}; new class {};",
	"<?php echo <<<A\nA;\necho <<<A\nA;\n", "<?php static fn() => 1; static fn() => 1; static function() {}; static function() {};", "<?php try {} catch (A $e) {} try {} catch (A $e) {}",
	"<?php switch ($a) {} switch ($a) {}", "<?php declare(a=1); declare(a=1);", "<?php return; return; break; break; continue; continue;", "<?php array(); array(); []; []; list() = $a; list() = $b;",
	"<?php exit; exit; die; die();", "<?php $a = function() {}; $b = function() {};", "<?php A::b(); A::b(); $a->b; $a->b;", "<?php namespace A; namespace B;", "<?php foo(...$a); foo(...$a);", "<?php ?>a<?php ?>a<?php ?>",
}

func evalC12parsed(src []byte, cfg string) (o Outcome) {
	for _, vs := range strings.Split(cfg, ",") {
		a, b := parseVer(vs)
		po := parseSafe(src, ver(a, b), true)
		if po.Panic != "" || po.Root == nil {
			continue
		}
		if site, d := checkTraversal(po.Root); site != "" {
			o.Fails = append(o.Fails, Failure{Site: "parsed:" + site, Kind: "input", Config: vs, Detail: d})
		}
		if k := sharedNode(po.Root); k != "" {
			o.Fails = append(o.Fails, Failure{Site: "shared-node:" + k, Kind: "input", Config: vs, Detail: "a " + k + " object is reachable along two different paths of the parsed tree"})
		}
		if len(po.Errs) == 0 {
			o.Tags = append(o.Tags, "error-free")
		} else {
			o.Tags = append(o.Tags, "with-errors")
		}
		o.Nontrivial = true
	}
	return
}

var markerRe = regexp.MustCompile("\x01([0-9]+)\x02")

func oracleC15() *Result {
	r := &Result{Rule: "real printer on G-tree instances (every kind; all slots present, each slot absent, each slot alone, list lengths 0/1/3, free-floating tokens, alt-syntax statement lists, random masks): the sequence of unique markers in the output must equal the markers of the present slots in struct declaration order (separators interleaved), each exactly once; the residue must not contain marker bytes. Parsed corpus trees with one child slot replaced by another subtree of the same tree, once as the same node object and once as a copy: equal output. Non-trivial = instance with >= 2 markers / a replaced slot"}
	rng := newRand("C15")
	kinds := map[string]bool{}
	for _, g := range gtreeCases(rng, opts.Tier == "thorough") {
		r.Evaluations++
		kinds[g.Kind] = true
		if len(g.Markers) >= 2 {
			r.DistinctNontrivial++
		}
		out, pan := printStr(g.Root)
		if pan != "" {
			r.fail(Failure{Site: "gtree:" + g.Kind + ":print-panic", Kind: "tree", Input: g.Kind + " [" + g.Desc + "]", Detail: pan})
			continue
		}
		var got []int
		for _, m := range markerRe.FindAllStringSubmatch(out, -1) {
			n, _ := strconv.Atoi(m[1])
			got = append(got, n)
		}
		var want []int
		names := map[int]string{}
		for _, m := range g.Markers {
			want = append(want, m.ID)
			names[m.ID] = m.Field
		}
		if !reflect.DeepEqual(got, want) {
			d := ""
			for i := 0; i < len(got) || i < len(want); i++ {
				if i >= len(got) {
					d = fmt.Sprintf("marker of %s is never printed", names[want[i]])
					break
				}
				if i >= len(want) {
					d = fmt.Sprintf("marker of %s printed again / unexpectedly at the end", names[got[i]])
					break
				}
				if got[i] != want[i] {
					d = fmt.Sprintf("position %d of the output holds the marker of %s, expected %s", i, names[got[i]], names[want[i]])
					break
				}
			}
			r.fail(Failure{Site: "gtree:" + g.Kind + ":markers", Kind: "tree", Input: g.Kind + " [" + g.Desc + "]", Detail: d + "; output " + strconv.QuoteToASCII(clip(out, 200))})
		}
		res := markerRe.ReplaceAllString(out, "")
		if strings.ContainsAny(res, "\x01\x02") {
			r.fail(Failure{Site: "gtree:" + g.Kind + ":residue", Kind: "tree", Input: g.Kind + " [" + g.Desc + "]", Detail: "output contains marker fragments outside markers: " + strconv.QuoteToASCII(clip(out, 200))})
		}
		if r.Evaluations%1500 == 1 {
			r.sample(map[string]string{"gtree": g.Kind, "slots": g.Desc, "output": strconv.QuoteToASCII(clip(out, 120))})
		}
	}
	r.stat("gtree_kinds", len(kinds))
	// "a change confined to one subtree": one child slot of a parsed tree is replaced by another subtree of the
	// SAME tree — once as the very node object (the node now sits in two slots), once as a copy of it.  What is
	// printed may depend on the node's content, never on its identity: both outputs must be equal.
	nshared := 0
	for _, s := range loadCorpus() {
		if len(s.Src) > 2500 {
			continue
		}
		fam := s.Family
		if fam == 0 {
			fam = 7
		}
		maj, min := uint64(7), uint64(4)
		if fam == 5 {
			maj, min = 5, 6
		}
		po := parseSafe(s.Src, ver(maj, min), true)
		if po.Panic != "" || po.Root == nil || len(po.Errs) > 0 {
			continue
		}
		type slot struct {
			holder ast.Vertex
			val    reflect.Value
		}
		var slots []slot
		var nodes []ast.Vertex
		walkTree(po.Root, func(n ast.Vertex, _ int) {
			nodes = append(nodes, n)
			for _, f := range fieldsOf(n) {
				if f.Sort == 3 && !f.Val.IsNil() && !isNilVertex(f.Val.Interface().(ast.Vertex)) {
					slots = append(slots, slot{n, f.Val})
				}
			}
		}, 0)
		if len(slots) < 2 || len(nodes) < 3 {
			continue
		}
		inside := func(root, x ast.Vertex) bool {
			found := false
			walkTree(root, func(n ast.Vertex, _ int) {
				if n == x {
					found = true
				}
			}, 0)
			return found
		}
		for try := 0; try < 4; try++ {
			sl := slots[rng.Intn(len(slots))]
			donor := nodes[1+rng.Intn(len(nodes)-1)]
			old := sl.val.Interface().(ast.Vertex)
			// the donor must stay where it is (not inside the part that is replaced) and must not contain the slot
			if inside(old, donor) || inside(donor, sl.holder) {
				continue
			}
			r.Evaluations++
			nshared++
			sl.val.Set(reflect.ValueOf(donor))
			shared, pan1 := printStr(po.Root)
			sl.val.Set(reflect.ValueOf(cloneVertex(donor)))
			copied, pan2 := printStr(po.Root)
			sl.val.Set(reflect.ValueOf(old))
			if pan1 != pan2 || shared != copied {
				r.fail(Failure{Site: "shared-node:" + reflect.TypeOf(sl.holder).Elem().Name(), Kind: "tree", Input: printable(s.Src),
					Detail: fmt.Sprintf("a %s placed in a second slot (of a %s) as the same object prints %s, as a copy %s", reflect.TypeOf(donor).Elem().Name(), reflect.TypeOf(sl.holder).Elem().Name(), strconv.QuoteToASCII(clip(shared, 160)), strconv.QuoteToASCII(clip(copied, 160)))})
			}
			r.DistinctNontrivial++
		}
	}
	r.stat("shared_subtree_cases", nshared)
	return r
}

// ---------------------------------------------------------------- C16

// mirrorCheck compares a go/ast composite literal (parsed from the dump) with the tree.
type c16 struct {
	withTok, withPos bool
	err              string
}

func (c *c16) fail(format string, a ...interface{}) {
	if c.err == "" {
		c.err = fmt.Sprintf(format, a...)
	}
}

func exprStr(e goast.Expr) string {
	var b bytes.Buffer
	goprinterFprint(&b, e)
	return b.String()
}

func (c *c16) keyed(lit *goast.CompositeLit) ([]string, []goast.Expr) {
	var ks []string
	var vs []goast.Expr
	for _, el := range lit.Elts {
		kv, ok := el.(*goast.KeyValueExpr)
		if !ok {
			c.fail("element without a key: %s", exprStr(el))
			continue
		}
		id, ok := kv.Key.(*goast.Ident)
		if !ok {
			c.fail("key is not an identifier: %s", exprStr(kv.Key))
			continue
		}
		ks = append(ks, id.Name)
		vs = append(vs, kv.Value)
	}
	return ks, vs
}

func unaryLit(e goast.Expr, typ string) *goast.CompositeLit {
	u, ok := e.(*goast.UnaryExpr)
	if !ok || u.Op != gotoken.AND {
		return nil
	}
	l, ok := u.X.(*goast.CompositeLit)
	if !ok {
		return nil
	}
	if typ != "" && exprStr(l.Type) != typ {
		return nil
	}
	return l
}

func (c *c16) bytesVal(e goast.Expr, want []byte, what string) {
	call, ok := e.(*goast.CallExpr)
	if !ok || exprStr(call.Fun) != "[]byte" || len(call.Args) != 1 {
		c.fail("%s: not a []byte(\"…\") conversion: %s", what, exprStr(e))
		return
	}
	bl, ok := call.Args[0].(*goast.BasicLit)
	if !ok || bl.Kind != gotoken.STRING {
		c.fail("%s: argument is not a string literal", what)
		return
	}
	s, err := strconv.Unquote(bl.Value)
	if err != nil || s != string(want) {
		c.fail("%s: dump has %s, tree has %q", what, bl.Value, clip(string(want), 60))
	}
}

func (c *c16) pos(e goast.Expr, p *position.Position, what string) {
	l := unaryLit(e, "position.Position")
	if l == nil {
		c.fail("%s: Position is not &position.Position{…}", what)
		return
	}
	ks, vs := c.keyed(l)
	if strings.Join(ks, ",") != "StartLine,EndLine,StartPos,EndPos" {
		c.fail("%s: Position keys %v", what, ks)
		return
	}
	want := []int{p.StartLine, p.EndLine, p.StartPos, p.EndPos}
	for i, v := range vs {
		if exprStr(v) != strconv.Itoa(want[i]) {
			c.fail("%s: Position.%s dump %s tree %d", what, ks[i], exprStr(v), want[i])
		}
	}
}

func (c *c16) tokLit(l *goast.CompositeLit, t *token.Token, what string) {
	ks, vs := c.keyed(l)
	var want []string
	if t.ID > 0 {
		want = append(want, "ID")
	}
	if t.Value != nil {
		want = append(want, "Val")
	}
	if c.withPos && t.Position != nil {
		want = append(want, "Position")
	}
	if t.FreeFloating != nil {
		want = append(want, "FreeFloating")
	}
	if strings.Join(ks, ",") != strings.Join(want, ",") {
		c.fail("%s: token keys %v, want %v", what, ks, want)
		return
	}
	for i, k := range ks {
		switch k {
		case "ID":
			if exprStr(vs[i]) != "token."+t.ID.String() {
				c.fail("%s: ID dump %s tree token.%s", what, exprStr(vs[i]), t.ID.String())
			}
		case "Val":
			c.bytesVal(vs[i], t.Value, what+".Val")
		case "Position":
			c.pos(vs[i], t.Position, what)
		case "FreeFloating":
			c.tokList(vs[i], t.FreeFloating, what+".FreeFloating")
		}
	}
}

func (c *c16) tokList(e goast.Expr, ts []*token.Token, what string) {
	l, ok := e.(*goast.CompositeLit)
	if !ok || exprStr(l.Type) != "[]*token.Token" {
		c.fail("%s: not a []*token.Token{…} literal", what)
		return
	}
	n := 0
	for _, t := range ts {
		if t != nil {
			n++
		}
	}
	if len(l.Elts) != n {
		c.fail("%s: %d elements in the dump, %d tokens in the tree", what, len(l.Elts), n)
		return
	}
	i := 0
	for _, t := range ts {
		if t == nil {
			continue
		}
		el, ok := l.Elts[i].(*goast.CompositeLit)
		if !ok {
			c.fail("%s[%d]: not a literal", what, i)
			return
		}
		c.tokLit(el, t, fmt.Sprintf("%s[%d]", what, i))
		i++
	}
}

func (c *c16) node(e goast.Expr, n ast.Vertex, path string) {
	if c.err != "" {
		return
	}
	k := kindName(n)
	l := unaryLit(e, "")
	if l == nil {
		c.fail("%s: not a &T{…} literal", path)
		return
	}
	if exprStr(l.Type) != "ast."+k {
		c.fail("%s: literal type %s for a node of kind %s", path, exprStr(l.Type), k)
		return
	}
	ks, vs := c.keyed(l)
	type wf struct {
		label string
		f     nodeField
	}
	var want []wf
	for _, f := range fieldsOf(n) {
		switch f.Sort {
		case 0:
			if c.withPos && !f.Val.IsNil() {
				want = append(want, wf{"Position", f})
			}
		case 1:
			if c.withTok && !f.Val.IsNil() {
				want = append(want, wf{f.Name, f})
			}
		case 2:
			if c.withTok && !f.Val.IsNil() {
				want = append(want, wf{f.Name, f})
			}
		case 3:
			if !f.Val.IsNil() {
				want = append(want, wf{f.Name, f})
			}
		case 4:
			if !f.Val.IsNil() {
				want = append(want, wf{f.Name, f})
			}
		case 5:
			if !f.Val.IsNil() {
				lab := f.Name
				if lab == "Value" {
					lab = "Val"
				}
				want = append(want, wf{lab, f})
			}
		}
	}
	var wl []string
	for _, w := range want {
		wl = append(wl, w.label)
	}
	// key order is immaterial in a Go composite literal: same labels, each exactly once
	sk, sw := append([]string(nil), ks...), append([]string(nil), wl...)
	sortStrings(sk)
	sortStrings(sw)
	if strings.Join(sk, ",") != strings.Join(sw, ",") {
		c.fail("%s (%s): dump has fields %v, the tree's non-empty fields are %v", path, k, ks, wl)
		return
	}
	byLabel := map[string]goast.Expr{}
	for i, kk := range ks {
		byLabel[kk] = vs[i]
	}
	for _, w := range want {
		vs := map[int]goast.Expr{0: byLabel[w.label]}
		i := 0
		what := path + "." + w.label
		switch w.f.Sort {
		case 0:
			c.pos(vs[i], w.f.Val.Interface().(*position.Position), what)
		case 1:
			tl := unaryLit(vs[i], "token.Token")
			if tl == nil {
				c.fail("%s: not &token.Token{…}", what)
				return
			}
			c.tokLit(tl, w.f.Val.Interface().(*token.Token), what)
		case 2:
			c.tokList(vs[i], w.f.Val.Interface().([]*token.Token), what)
		case 3:
			c.node(vs[i], w.f.Val.Interface().(ast.Vertex), what)
		case 4:
			ll, ok := vs[i].(*goast.CompositeLit)
			if !ok || exprStr(ll.Type) != "[]ast.Vertex" {
				c.fail("%s: not a []ast.Vertex{…} literal", what)
				return
			}
			list := w.f.Val.Interface().([]ast.Vertex)
			if len(ll.Elts) != len(list) {
				c.fail("%s: %d elements in the dump, %d in the tree", what, len(ll.Elts), len(list))
				return
			}
			for j := range list {
				c.node(ll.Elts[j], list[j], fmt.Sprintf("%s[%d]", what, j))
			}
		case 5:
			c.bytesVal(vs[i], w.f.Val.Bytes(), what)
		}
	}
}

// checkDump: C16's statement on one tree and one option combination.
func checkDump(root ast.Vertex, withTok, withPos bool) (site, detail string) {
	d, pan := dumpStr(root, withTok, withPos)
	if pan != "" {
		return "dump-panic", pan
	}
	// the dump is an element of a composite literal (it ends in "},\n"): parse it in list context
	e, err := goparser.ParseExpr("[]ast.Vertex{\n" + d + "}")
	if err != nil {
		return "not-go-syntax", err.Error()
	}
	l := e.(*goast.CompositeLit)
	if len(l.Elts) != 1 {
		return "not-one-literal", fmt.Sprintf("%d top-level elements", len(l.Elts))
	}
	c := &c16{withTok: withTok, withPos: withPos}
	c.node(l.Elts[0], root, kindName(root))
	if c.err != "" {
		return "mirror", c.err
	}
	return "", ""
}

func oracleC16() *Result {
	r := &Result{Rule: "real dumper under all four option combinations; output parsed with go/parser (list context) and compared field by field with a reflection walk: literal type = node kind, keys = the non-empty fields in declaration order under their own labels (Value -> Val), tokens only WithTokens, positions only WithPositions, contents equal. G-tree instances of every kind (markers incl. bytes >= 0x80 and quotes) + parsed corpus / edge / non-UTF-8 sources. Non-trivial = distinct tree x option combination with >= 2 fields"}
	rng := newRand("C16")
	kinds := map[string]bool{}
	for _, g := range gtreeCases(rng, opts.Tier == "thorough") {
		kinds[g.Kind] = true
		// make some values nasty for the quoting
		if r.Evaluations%3 == 0 {
			for i, m := range g.Markers {
				if m.Tok != nil {
					m.Tok.Value = append(m.Tok.Value, []byte([]string{"\xe9", "\"q\\", "\n\t", "\xff\xfe", "\u00e9"}[i%5])...)
				}
			}
		}
		for opt := 0; opt < 4; opt++ {
			r.Evaluations++
			r.DistinctNontrivial++
			if site, d := checkDump(g.Root, opt&1 != 0, opt&2 != 0); site != "" {
				r.fail(Failure{Site: "gtree:" + g.Kind + ":" + site, Kind: "tree", Input: g.Kind + " [" + g.Desc + "]", Config: fmt.Sprintf("tokens=%v positions=%v", opt&1 != 0, opt&2 != 0), Detail: d})
			}
		}
		if r.Evaluations%6000 == 4 {
			d, _ := dumpStr(g.Root, true, false)
			r.sample(map[string]string{"gtree": g.Kind, "slots": g.Desc, "dump": clip(d, 160)})
		}
	}
	r.stat("gtree_kinds", len(kinds))
	var tasks []Task
	add := func(b []byte, tag string) {
		tasks = append(tasks, Task{Oracle: "C16p", Cfg: "5.6,7.4", Src: b, Tag: tag})
	}
	for _, c := range regressionInputs("C16") {
		add(c, "regression")
	}
	for _, e := range edgeSources {
		add([]byte(e), "edge")
	}
	for _, e := range []string{"<?php echo 'caf\xe9';", "<?php $\xe9 = \"\xff\xfe\";", "<?php echo \"\\x00\x00\x7f\";", "a\xc3\x28b<?php // \xa0\n", "<?php echo '\xef\xbb\xbf';", "<?php f\xf0\x9f\x98\x80();"} {
		add([]byte(e), "non-utf8")
	}
	for _, s := range loadCorpus() {
		add(s.Src, "corpus")
	}
	for _, s := range cfgSentences(rng) {
		add(s, "g-cfg")
	}
	// values, comments and lists of a size where buffering or chunking in the dumper's output path would show
	for _, n := range []int{1000, 4000, 4095, 4096, 4097, 5000, 8191, 8192, 8193, 20000, 70000} {
		fill := strings.Repeat("abcdefghij klmnopq\n", n/19+1)[:n]
		add([]byte("<h1>"+fill+"</h1>\n<?php echo 1;"), "long-value")
		add([]byte("<?php $s = '"+strings.ReplaceAll(fill, "\n", " ")+"'; echo \"x "+strings.ReplaceAll(fill, "\n", " ")+" $y\";"), "long-value")
		add([]byte("<?php\n/** "+strings.ReplaceAll(fill, "\n", "\n * ")+" */\nfunction f() {}\n// "+strings.ReplaceAll(fill, "\n", " ")+"\n$a = 1;"), "long-value")
		if n <= 8193 {
			add([]byte("<?php $a = ["+strings.Repeat("1, ", n/3)+"2];"), "long-list")
		}
	}
	runOracle(r, tasks)
	return r
}

func evalC16parsed(src []byte, cfg string) (o Outcome) {
	for _, vs := range strings.Split(cfg, ",") {
		a, b := parseVer(vs)
		po := parseSafe(src, ver(a, b), true)
		if po.Panic != "" || po.Root == nil {
			continue
		}
		for opt := 0; opt < 4; opt++ {
			if site, d := checkDump(po.Root, opt&1 != 0, opt&2 != 0); site != "" {
				o.Fails = append(o.Fails, Failure{Site: "parsed:" + site, Kind: "input", Config: fmt.Sprintf("%s tokens=%v positions=%v", vs, opt&1 != 0, opt&2 != 0), Detail: d})
			}
		}
		o.Nontrivial = true
	}
	return
}

// ---------------------------------------------------------------- C13

type obsOp struct {
	name string
	run  func(root ast.Vertex) string
}

func resolveStr(root ast.Vertex) (s string, pan string) {
	defer func() {
		if e := recover(); e != nil {
			pan = fmt.Sprint(e)
		}
	}()
	nsr := nsresolver.NewNamespaceResolver()
	traverser.NewTraverser(nsr).Traverse(root)
	// canonical: preorder index of the node -> name
	idx := map[uintptr]int{}
	for i, n := range preorder(root) {
		idx[reflect.ValueOf(n).Pointer()] = i
	}
	lines := make([]string, 0, len(nsr.ResolvedNames))
	for n, name := range nsr.ResolvedNames {
		i, ok := idx[reflect.ValueOf(n).Pointer()]
		if !ok {
			i = -1
		}
		lines = append(lines, fmt.Sprintf("%06d %s=%s", i, kindName(n), name))
	}
	sortStrings(lines)
	return strings.Join(lines, "\n"), ""
}

var obsOps = []obsOp{
	{"print", func(r ast.Vertex) string { s, p := printStr(r); return s + p }},
	{"dump", func(r ast.Vertex) string { s, p := dumpStr(r, false, false); return s + p }},
	{"dump+tokens", func(r ast.Vertex) string { s, p := dumpStr(r, true, false); return s + p }},
	{"dump+positions", func(r ast.Vertex) string { s, p := dumpStr(r, false, true); return s + p }},
	{"dump+tokens+positions", func(r ast.Vertex) string { s, p := dumpStr(r, true, true); return s + p }},
	{"traverse", func(r ast.Vertex) string {
		seen, p := traverseRecord(r)
		return fmt.Sprint(len(seen)) + p
	}},
	{"resolve", func(r ast.Vertex) string { s, p := resolveStr(r); return s + p }},
}

// evalC13: a random history of observer operations; each op's output must equal its output on a
// freshly parsed tree, the reflection fingerprint of the tree and the source buffer must not change.
func evalC13(src []byte, cfg string) (o Outcome) {
	sp := strings.Split(cfg, "/")
	a, b := parseVer(sp[0])
	seed, _ := strconv.ParseInt(sp[1], 10, 64)
	hlen, _ := strconv.Atoi(sp[2])
	orig := append([]byte(nil), src...)
	fresh := make([]string, len(obsOps))
	for i, op := range obsOps {
		po := parseSafe(src, ver(a, b), true)
		if po.Panic != "" || po.Root == nil {
			o.Reject = "no-tree"
			return
		}
		fresh[i] = op.run(po.Root)
	}
	po := parseSafe(src, ver(a, b), true)
	fp := fullStr(po.Root, true)
	rng := newRand(fmt.Sprint("C13h", seed))
	var hist []string
	for step := 0; step < hlen; step++ {
		i := rng.Intn(len(obsOps))
		hist = append(hist, obsOps[i].name)
		got := obsOps[i].run(po.Root)
		if got != fresh[i] {
			o.Fails = append(o.Fails, Failure{Site: "history-output:" + obsOps[i].name, Kind: "history", Config: cfg,
				Detail: fmt.Sprintf("after history %v, %s gives an output different from the one on a fresh tree (first difference at byte %d)", hist, obsOps[i].name, firstDiff([]byte(got), []byte(fresh[i]))),
				Extra:  hist})
			return
		}
		if now := fullStr(po.Root, true); now != fp {
			o.Fails = append(o.Fails, Failure{Site: "tree-modified:" + obsOps[i].name, Kind: "history", Config: cfg,
				Detail: fmt.Sprintf("history %v: the tree's fingerprint changed during %s (first difference at %d: …%s)", hist, obsOps[i].name, firstDiff([]byte(now), []byte(fp)), clip(now[maxInt(0, firstDiff([]byte(now), []byte(fp))-30):], 80))})
			return
		}
		if !bytes.Equal(src, orig) {
			o.Fails = append(o.Fails, Failure{Site: "source-modified:" + obsOps[i].name, Kind: "history", Config: cfg, Detail: fmt.Sprintf("history %v: the source buffer changed", hist)})
			return
		}
	}
	o.Nontrivial = true
	o.Key = hashKey(cfg, string(src))
	return
}

func maxInt(a, b int) int {
	if a > b {
		return a
	}
	return b
}

func oracleC13() *Result {
	r := &Result{Rule: "random histories over {print, dump (4 option sets), traverse(recorder), resolve} on one parsed tree (length 12 quick, 120 thorough): after every step the op's output equals its output on a freshly parsed tree, the reflection fingerprint (structure, tokens, free-floating, positions, values) is unchanged, the source buffer is unchanged. Sources: corpus, edge list, namespace-heavy sources, G-cfg. Non-trivial = distinct (source, version, history seed) whose whole history ran"}
	rng := newRand("C13")
	hl, nh := 12, 2
	if opts.Tier == "thorough" {
		hl, nh = 120, 6
	}
	var tasks []Task
	add := func(b []byte, tag string) {
		for h := 0; h < nh; h++ {
			v := []string{"5.6", "7.4"}[rng.Intn(2)]
			tasks = append(tasks, Task{Oracle: "C13", Cfg: fmt.Sprintf("%s/%d/%d", v, rng.Int63n(1<<40), hl), Src: b, Tag: tag})
		}
	}
	for _, c := range regressionInputs("C13") {
		add(c, "regression")
	}
	for _, e := range edgeSources {
		add([]byte(e), "edge")
	}
	for _, e := range nsSources {
		add([]byte(e), "namespaces")
	}
	for _, s := range loadCorpus() {
		add(s.Src, "corpus")
	}
	for _, s := range cfgSentences(rng) {
		add(s, "g-cfg")
	}
	runOracle(r, tasks)
	return r
}
