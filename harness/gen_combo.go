//go:build verif

package main

import (
	"bytes"
	"fmt"
	"math/rand"
	"strings"
)

// Files made of several independent pieces: what a formatter (or any visitor with state that outlives
// a statement) does to one construct may depend on another construct earlier in the same file.

// combineSources joins 2-4 of the given programs (each starting with `<?php`) into one file.
func combineSources(rng *rand.Rand, srcs [][]byte, n int) [][]byte {
	var ok [][]byte
	for _, s := range srcs {
		l := bytes.ToLower(s)
		if bytes.HasPrefix(l, []byte("<?php")) && !bytes.Contains(s, []byte("?>")) && !bytes.Contains(l, []byte("__halt_compiler")) &&
			!bytes.Contains(l, []byte("namespace")) && !bytes.Contains(l, []byte("declare")) && len(s) < 1500 {
			ok = append(ok, s)
		}
	}
	var out [][]byte
	if len(ok) < 2 {
		return nil
	}
	for i := 0; i < n; i++ {
		k := 2 + rng.Intn(3)
		b := append([]byte(nil), ok[rng.Intn(len(ok))]...)
		for j := 1; j < k; j++ {
			b = append(b, '\n')
			b = append(b, ok[rng.Intn(len(ok))][5:]...)
		}
		out = append(out, b)
	}
	return out
}

var docContexts = []string{"foo(%s\n);", "$a = %s\n;", "array(%s\n);", "$x[%s\n];", "!%s\n;", "echo %s\n;", "isset($a[%s\n]);", "(string)%s\n;",
	"foo(1, %s\n);", "return %s\n;", "$a . %s\n;", "[%s\n, 2];", "-%s\n;", "@%s\n;", "f(%s\n)->g();", "new A(%s\n);"}

var docBodies = []string{"<<<X\nprice: $amount\nX", "<<<'X'\nprice: $amount\nX", "<<<\"X\"\nv {$a->b} ${c}\nX", "<<<X\nX", "<<<'X'\nX",
	"<<<X\nplain\nX", "<<<'X'\nplain {$a}\nX", "<<<X\n$a[1] $b->c\nX",
	"<<< 'X'\nraw $a {$b}\nX", "<<<\t'X'\nraw ${a}\nX", "<<< X\ncooked $a\nX", "<<< \"X\"\ncooked {$a}\nX", "b<<<'X'\nraw $a\nX", "b<<< 'X'\nraw $a\nX",
	"<<<X\nEOT\nX", "<<<X\n a EOT b\nEOT;\nX", "<<<'X'\nEOT\nX", "<<<X\n  EOT\n  X", "<<<EOT\nX\nEOT", "<<<X\nEOT $a EOT\nEOT\nX",
	"<<<X\n  indented $a\n  X", "<<<'X'\n\tindented $a\n\tX", "<<<X\n    a\n   b\n   X"}

// docCombos: files with 2-3 heredocs / nowdocs in varying syntactic positions
func docCombos(rng *rand.Rand, n int) [][]byte {
	var out [][]byte
	for i := 0; i < n; i++ {
		var b strings.Builder
		b.WriteString("<?php\n")
		k := 2 + rng.Intn(2)
		for j := 0; j < k; j++ {
			fmt.Fprintf(&b, docContexts[rng.Intn(len(docContexts))], docBodies[rng.Intn(len(docBodies))])
			b.WriteByte('\n')
		}
		out = append(out, []byte(b.String()))
	}
	return out
}

// signChainSources: prefix / postfix sign and increment operators stacked on operands of every binding
// strength, with and without blanks (the invalid ones are rejected by the parser)
func signChainSources() [][]byte {
	pre := []string{"-", "+", "--", "++", "!", "~", "(int)", "@"}
	ops := []string{"$a", "$a ** 2", "$a[1]", "$a->b", "$a--", "$a++", "$a ** -$b", "$a - -$b", "$a + ++$b", "$a - --$b ** 2", "f()", "1"}
	var out [][]byte
	for _, p1 := range pre {
		for _, o := range ops {
			out = append(out, []byte("<?php "+p1+" "+o+";"))
			for _, p2 := range pre {
				out = append(out, []byte("<?php "+p1+" "+p2+" "+o+";"))
				out = append(out, []byte("<?php $x = "+p1+p2+o+";"))
				for _, p3 := range []string{"-", "+", "--", "++"} {
					out = append(out, []byte("<?php "+p1+" "+p2+" "+p3+" "+o+";"))
				}
			}
		}
	}
	return out
}

// heredocLookalikes: valid heredocs / nowdocs whose body has lines that START like the closing label but go on
// with a label character (digit, letter, underscore, byte >= 0x80), with and without indentation, plus a shorter
// prefix of the label and the label in another case — none of them ends the string, in any PHP version.
func heredocLookalikes() [][]byte {
	var out [][]byte
	for _, label := range []string{"SQL", "A", "EOT", "X_1"} {
		for qi, open := range []string{"<<<%s", "<<<'%s'", "<<<\"%s\""} {
			for _, suffix := range []string{"1", "9", "a", "Z", "_", "_x", "\x80", "\xc3\xa9"} {
				for _, indent := range []string{"", "  ", "\t"} {
					body := "first line\n" + indent + label + suffix + " rest\n" + indent + label[:len(label)-1] + "\nlast"
					if qi != 1 {
						body += " $v"
					}
					out = append(out, []byte("<?php\n$q = "+strings.ReplaceAll(open, "%s", label)+"\n"+body+"\n"+label+";\n$after = 1;\n"))
				}
			}
		}
	}
	return out
}

// heredocTrailers: what may follow the closing label of a heredoc / nowdoc on the same line from PHP 7.3 on (before
// 7.3 only `;` and a line end).  stmt: statement forms — before 7.3 the first label line is body text and the second
// heredoc's closing line ends the first, still a valid program (another one); call: forms inside an argument list —
// before 7.3 the string runs to the second `EOT;` and the call is never closed: accepted exactly from 7.3.
func heredocTrailers() (stmt, call [][]byte) {
	for _, open := range []string{"<<<EOT", "<<<'EOT'"} {
		for _, tr := range []string{"; // first", ";\t", "; ", ";# c", ";/* c */", "; $b = 2;", " ;", " . 'x';", "; ?>\n<?php"} {
			stmt = append(stmt, []byte("<?php\n$a = "+open+"\nfoo\nEOT"+tr+"\n$c = "+open+"\nbar\nEOT;\necho 1;\n"))
		}
		for _, tr := range []string{", 1);", ");", "  , 2 );"} {
			call = append(call, []byte("<?php\nf("+open+"\nfoo\nEOT"+tr+"\n$c = "+open+"\nbar\nEOT;\necho 1;\n"))
		}
	}
	return
}
