//go:build verif

package main

import (
	"bytes"
	"strings"
)

func init() {
	commands["oracle-C01"] = oracleC01
	oracles["C01"] = evalC01
}

// evalC01 is C01's statement on one input: for each version of cfg and with / without callback,
// parser.Parse returns normally (no panic; hang and memory are the worker's watchdogs) and the
// input buffer is byte-for-byte unchanged.
func evalC01(src []byte, cfg string) (o Outcome) {
	orig := append([]byte(nil), src...)
	for _, vs := range strings.Split(cfg, ",") {
		a, b := parseVer(vs)
		for _, cb := range []bool{true, false} {
			// the caller's buffer: the input followed by spare capacity (guard bytes that belong to the caller too)
			whole := append(append(make([]byte, 0, len(orig)+8), orig...), 0xA5, 0x5A, '<', '?', 'p', 'h', 'p', ' ')
			buf := whole[:len(orig)]
			po := parseSafe(buf, ver(a, b), cb)
			c := vs + "/cb"
			if !cb {
				c = vs + "/nil"
			}
			if po.Panic != "" {
				o.Fails = append(o.Fails, Failure{Site: "panic:" + po.Site, Kind: "input", Config: c, Detail: "panic: " + clip(po.Panic, 200)})
				o.Tags = append(o.Tags, "outcome:panic")
				continue
			}
			if !bytes.Equal(buf, orig) {
				o.Fails = append(o.Fails, Failure{Site: "buffer-modified", Kind: "input", Config: c, Detail: "input buffer changed by Parse"})
			}
			if !bytes.Equal(whole[len(orig):len(orig)+8], []byte{0xA5, 0x5A, '<', '?', 'p', 'h', 'p', ' '}) {
				o.Fails = append(o.Fails, Failure{Site: "buffer-modified:beyond-len", Kind: "input", Config: c, Detail: "Parse wrote into the spare capacity behind the input slice (the caller's backing array)"})
			}
			if po.Err != nil {
				o.Fails = append(o.Fails, Failure{Site: "parse-error-return", Kind: "input", Config: c, Detail: "Parse returned error for a supported version: " + po.Err.Error()})
			}
			if cb {
				if len(po.Errs) > 0 {
					o.Tags = append(o.Tags, "outcome:errors")
				} else {
					o.Tags = append(o.Tags, "outcome:clean")
				}
				if po.Root == nil {
					o.Tags = append(o.Tags, "outcome:nil-root")
				}
			}
		}
	}
	o.Nontrivial = len(src) > 0
	return
}

func oracleC01() *Result {
	r := &Result{Rule: "real parser.Parse under recover + watchdog (3 s + 40 µs/byte, solo re-run) + heap limit, versions x {callback, nil}; buffer compared with a copy. Generators: G-bytes exhaustive over a 27-symbol alphabet after 24 mode-entering prefixes (k=2 quick, k=3 thorough), every truncation of corpus snippets, byte mutations, random fragment soup, every (LALR state, lookahead token) pair reachable from the sentence corpus (prefix of a sentence that reaches the state + the token's lexeme + the rest), 16 nesting forms (braces, control structures, interpolation in quotes / backticks / heredoc, brackets, calls) at depths around every power of two up to 600 (thorough: every depth to 140 and around powers of two to 3000). Non-trivial = distinct non-empty input"}
	rng := newRand("C01")
	versions := "5.6,7.2,7.4"
	k, nrand, nmut := 2, 3000, 6
	if opts.Tier == "thorough" {
		versions = "5.0,5.6,7.0,7.2,7.3,7.4"
		k, nrand, nmut = 3, 40000, 40
	}
	var tasks []Task
	add := func(b []byte, tag string) {
		tasks = append(tasks, Task{Oracle: "C01", Cfg: versions, Src: b, Tag: tag})
	}
	for _, c := range regressionInputs("C01") {
		add(c, "regression")
	}
	for _, b := range genBytesExhaustive(k) {
		add(b, "g-bytes")
	}
	// every byte value after the bytes that start an interpolation, in every string-like mode
	strPrefixes := []string{"<?php \"", "<?php `", "<?php <<<A\n", "<?php <<<\"A\"\n", "<?php \"$a", "<?php \"{$a", "<?php <<<A\nx $a", "<?php $a->", "<?php \"$a[", "<?php '", "<?php <<<'A'\n", "<?php ", "a"}
	for _, p := range strPrefixes {
		for _, s := range []string{"$", "{$", "${", "\\", "$a->", "$a[", "-", "<", "?", "{", "$$"} {
			for c := 0; c < 256; c++ {
				add(append([]byte(p+s), byte(c)), "mode-bytes")
				if opts.Tier == "thorough" || c >= 0x7e || c < 0x21 {
					add(append(append([]byte(p+s), byte(c)), "\nA;\n\""...), "mode-bytes")
				}
			}
		}
	}
	corpus := loadCorpus()
	for _, s := range corpus {
		add(s.Src, "corpus")
		if len(s.Src) < 4000 {
			lim := 80
			if opts.Tier == "thorough" {
				lim = 400
			}
			for _, t := range truncations(s.Src, rng, lim) {
				add(t, "truncation")
			}
			for _, m := range mutations(s.Src, rng, nmut) {
				add(m, "mutation")
			}
		}
	}
	for _, b := range genBytesRandom(rng, nrand, 60) {
		add(b, "random")
	}
	// every (automaton state, lookahead token) pair the sentence corpus reaches: each cell of the LALR action lookup
	var bases [][]byte
	for _, s := range corpus {
		bases = append(bases, s.Src)
	}
	bases = append(bases, cfgSentences(rng)...)
	for _, fam := range []int{7, 5} {
		v := "7.4"
		if fam == 5 {
			v = "5.6"
		}
		for _, b := range stateTokenInputs(fam, rng, bases) {
			tasks = append(tasks, Task{Oracle: "C01", Cfg: v, Src: b, Tag: "state-x-token"})
		}
	}
	// long inputs: time proportional to length, pools crossing block boundaries
	long := bytes.Repeat([]byte("<?php $a = [1, 2, 3]; /* c */ echo \"x $a[0] {$b->c}\";\n?>\n"), 3000)
	add(long, "long")
	add(append(long, []byte("<?php \"$")...), "long")
	// deep nesting: the scanner's call stack (one frame per `{` in code, per `{$` / `${` / `$a[` in a
	// string-like mode) and the parser's value stack grow with the nesting depth
	depths := []int{1, 2, 3, 7, 8, 9, 15, 16, 17, 18, 31, 32, 33, 34, 63, 64, 65, 66, 100, 127, 128, 129, 130, 257, 600}
	if opts.Tier == "thorough" {
		depths = nil
		for d := 1; d <= 140; d++ {
			depths = append(depths, d)
		}
		depths = append(depths, 255, 256, 257, 258, 511, 512, 513, 1023, 1024, 1025, 1026, 3000)
	}
	rep := strings.Repeat
	for _, d := range depths {
		nests := []string{
			"<?php " + rep("{", d),
			"<?php " + rep("{", d) + rep("}", d),
			"<?php " + rep("if ($a) { ", d) + "$b = 1;" + rep(" }", d),
			"<?php function f() { " + rep("while ($a) { ", d) + rep("} ", d) + "}",
			"<?php $x = " + rep("\"{$a[", d) + "1" + rep("]}\"", d) + ";",
			"<?php $x = " + rep("\"${a[", d) + "1" + rep("]}\"", d) + ";",
			"<?php $x = " + rep("`{$a[", d) + "1" + rep("]}`", d) + ";",
			"<?php $x = " + rep("\"{$a[", d),
			"<?php $x = \"" + rep("$a[", d),
			"<?php $x = " + rep("[", d) + "1" + rep("]", d) + ";",
			"<?php $x = " + rep("(", d) + "1" + rep(")", d) + ";",
			"<?php $x = " + rep("f(", d) + rep(")", d) + ";",
			"<?php $x = <<<A\n" + rep("{$a[\"", d) + "1" + rep("\"]}", d) + "\nA;\n",
			"<?php " + rep("{", d) + " ?>" + rep("}", d),
			"<?php " + rep("}", d),
			"<?php \"" + rep("}", d),
		}
		for _, n := range nests {
			add([]byte(n), "nesting")
		}
	}
	runOracle(r, tasks)
	return r
}
