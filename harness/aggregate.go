//go:build verif

package main

import (
	"crypto/sha1"
	"encoding/hex"
	"fmt"
	"math/rand"
	"runtime"
	"sort"
	"strconv"
	"strings"
	"sync"
)

func nproc() int {
	n := runtime.NumCPU()
	if n > 16 {
		n = 16
	}
	return n
}

func hashKey(parts ...string) string {
	h := sha1.New()
	for _, p := range parts {
		h.Write([]byte(p))
		h.Write([]byte{0})
	}
	return hex.EncodeToString(h.Sum(nil)[:10])
}

func printable(b []byte) string { return clip(strconv.QuoteToASCII(string(b)), 400) }

// runOracle evaluates tasks in workers and folds the outcomes into r.  Hangs are re-confirmed
// alone before they count.
func runOracle(r *Result, tasks []Task) []taskResult {
	if opts.Only != "" {
		var keep []Task
		for _, t := range tasks {
			if t.Tag == opts.Only {
				keep = append(keep, t)
			}
		}
		tasks = keep
	}
	res := runTasks(tasks, nproc())
	// re-run hangs/crashes alone (a loaded machine must not produce an alarm)
	var redo []int
	for i := range res {
		if res[i].Kind == "hang" || res[i].Kind == "crash" || res[i].Kind == "oom" || res[i].Kind == "" {
			redo = append(redo, i)
		}
	}
	if len(redo) > 0 {
		// solo = one process per input, a quarter of the cores so that timing is not disturbed;
		// beyond 300 candidates only the first 300 are re-confirmed, the rest are dropped (not reported)
		if len(redo) > 300 {
			for _, i := range redo[300:] {
				res[i] = taskResult{Kind: "done", Out: Outcome{Reject: "unconfirmed-hang-candidate"}}
			}
			redo = redo[:300]
		}
		sem := make(chan bool, 4)
		var wg sync.WaitGroup
		for _, i := range redo {
			wg.Add(1)
			sem <- true
			go func(i int) {
				defer wg.Done()
				one := runTasks([]Task{tasks[i]}, 1)
				res[i] = one[0]
				<-sem
			}(i)
		}
		wg.Wait()
	}
	seen := map[string]bool{}
	tags := map[string]int{}
	gens := map[string]int{}
	sizes := map[string]int{}
	rejects := map[string]int{}
	for i, t := range tasks {
		r.Evaluations++
		gens[t.Tag]++
		switch n := len(t.Src); {
		case n < 16:
			sizes["<16B"]++
		case n < 128:
			sizes["<128B"]++
		case n < 2048:
			sizes["<2KiB"]++
		default:
			sizes[">=2KiB"]++
		}
		tr := res[i]
		switch tr.Kind {
		case "done":
			o := tr.Out
			if o.Reject != "" {
				rejects[o.Reject]++
				continue
			}
			for _, tg := range o.Tags {
				tags[tg]++
			}
			for _, f := range o.Fails {
				if f.Hex == "" {
					f.Hex = hex.EncodeToString(t.Src)
				}
				if f.Input == "" {
					f.Input = printable(t.Src)
				}
				if f.Config == "" {
					f.Config = t.Cfg
				}
				f.Extra = map[string]string{"oracle": t.Oracle, "gen": t.Tag}
				r.fail(f)
			}
			if o.Nontrivial {
				k := o.Key
				if k == "" {
					k = hashKey(t.Cfg, string(t.Src))
				}
				if !seen[k] {
					seen[k] = true
					r.DistinctNontrivial++
					if len(r.Samples) < 8 && (r.DistinctNontrivial%97 == 1) {
						r.sample(map[string]string{"input": printable(t.Src), "cfg": t.Cfg, "gen": t.Tag})
					}
				}
			}
		case "hang":
			tags["outcome:hang"]++
			r.fail(Failure{Site: "hang:" + tr.Site, Kind: "input", Input: printable(t.Src), Hex: hex.EncodeToString(t.Src), Config: t.Cfg,
				Detail: fmt.Sprintf("no return within %v (confirmed by a solo re-run)", deadlineFor(len(t.Src))), Extra: map[string]string{"oracle": t.Oracle, "gen": t.Tag}})
		case "oom":
			tags["outcome:oom"]++
			r.fail(Failure{Site: "oom:" + tr.Site, Kind: "input", Input: printable(t.Src), Hex: hex.EncodeToString(t.Src), Config: t.Cfg,
				Detail: "heap grew beyond 3 GiB", Extra: map[string]string{"oracle": t.Oracle, "gen": t.Tag}})
		default:
			tags["outcome:crash"]++
			r.fail(Failure{Site: "crash:" + tr.Site, Kind: "input", Input: printable(t.Src), Hex: hex.EncodeToString(t.Src), Config: t.Cfg,
				Detail: "worker process died (fatal error / stack overflow)", Extra: map[string]string{"oracle": t.Oracle, "gen": t.Tag}})
		}
	}
	if len(lastCfgStats) > 0 {
		mergeCount(r, "g-cfg", lastCfgStats)
	}
	mergeCount(r, "generators", gens)
	mergeCount(r, "sizes", sizes)
	mergeCount(r, "tags", tags)
	mergeCount(r, "rejected", rejects)
	return res
}

func mergeCount(r *Result, key string, m map[string]int) {
	if r.Stats == nil {
		r.Stats = map[string]interface{}{}
	}
	old, _ := r.Stats[key].(map[string]int)
	if old == nil {
		old = map[string]int{}
	}
	for k, v := range m {
		old[k] += v
	}
	r.Stats[key] = old
}

func sortedKeys(m map[string]int) []string {
	var ks []string
	for k := range m {
		ks = append(ks, k)
	}
	sort.Strings(ks)
	return ks
}

func newRand(salt string) *rand.Rand {
	h := sha1.Sum([]byte(salt))
	var s int64
	for i := 0; i < 8; i++ {
		s = s<<8 | int64(h[i])
	}
	return rand.New(rand.NewSource(s ^ opts.Seed*0x9E3779B97F4A7C))
}

func parseVer(s string) (uint64, uint64) {
	var a, b uint64
	sp := strings.SplitN(s, ".", 2)
	a, _ = strconv.ParseUint(sp[0], 10, 64)
	if len(sp) > 1 {
		b, _ = strconv.ParseUint(sp[1], 10, 64)
	}
	return a, b
}
