//go:build verif

package main

import (
	"fmt"
	"math/rand"
	"reflect"
	"sort"
	"strings"

	"github.com/z7zmey/php-parser/pkg/ast"
	"github.com/z7zmey/php-parser/pkg/visitor/nsresolver"
	"github.com/z7zmey/php-parser/pkg/visitor/traverser"
)

func init() {
	commands["diff-nsr"] = diffNsr
	commands["oracle-C14"] = oracleC14
}

var nsrIdents = []string{"a", "A", "b", "B", "Foo", "foo", "FOO", "self", "Static", "true", "NULL", "int", "x1", "parent", "string", "Object", "c"}

func randName(rng *rand.Rand, maxParts int) []string {
	n := 1 + rng.Intn(maxParts)
	out := make([]string, n)
	for i := range out {
		out[i] = nsrIdents[rng.Intn(len(nsrIdents))]
	}
	return out
}

func partsNode(parts []string) []ast.Vertex {
	var out []ast.Vertex
	for _, p := range parts {
		out = append(out, &ast.NamePart{Value: []byte(p)})
	}
	return out
}

func hexParts(parts []string) string {
	if len(parts) == 0 {
		return "-"
	}
	ss := make([]string, len(parts))
	for i, p := range parts {
		ss[i] = hexOrDash([]byte(p))
	}
	return strings.Join(ss, ",")
}

type useDecl struct {
	kind   string // c f k
	target string
	alias  string
}

func histStr(h []useDecl) string {
	if len(h) == 0 {
		return "-"
	}
	ss := make([]string, len(h))
	for i, d := range h {
		ss[i] = d.kind + ":" + hexOrDash([]byte(d.target)) + ":" + hexOrDash([]byte(d.alias))
	}
	return strings.Join(ss, ";")
}

var kindType = map[string]string{"c": "", "f": "function", "k": "const"}

// diff-nsr (T-diff, M-NSR): the real Namespace (AddAlias / ResolveName) on generated alias histories
// and names of all three forms and kinds, against the Lean model.
func diffNsr() *Result {
	r := &Result{Rule: "random namespaces (empty / one / two segments), histories of 0..6 use declarations of the three kinds with aliases in mixed case (incl. re-declaration of an alias), references fully qualified / relative / qualified / unqualified x class / function / const, incl. the special names in every case pattern"}
	rng := newRand("diff-nsr")
	n := 6000
	if opts.Tier == "thorough" {
		n = 120000
	}
	var lines, real []string
	for i := 0; i < n; i++ {
		nsName := strings.Join(randName(rng, 2), "\\")
		if rng.Intn(3) == 0 {
			nsName = ""
		}
		var hist []useDecl
		for j := rng.Intn(7); j > 0; j-- {
			hist = append(hist, useDecl{[]string{"c", "f", "k"}[rng.Intn(3)], strings.Join(randName(rng, 3), "\\"), nsrIdents[rng.Intn(len(nsrIdents))]})
		}
		ns := nsresolver.NewNamespace(nsName)
		for _, d := range hist {
			ns.AddAlias(kindType[d.kind], d.target, d.alias)
		}
		for q := 0; q < 4; q++ {
			form := []string{"q", "r", "p", "p", "p"}[rng.Intn(5)]
			kind := []string{"c", "f", "k"}[rng.Intn(3)]
			parts := randName(rng, 3)
			var node ast.Vertex
			switch form {
			case "q":
				node = &ast.NameFullyQualified{Parts: partsNode(parts)}
			case "r":
				node = &ast.NameRelative{Parts: partsNode(parts)}
			default:
				node = &ast.Name{Parts: partsNode(parts)}
			}
			res := guard(func() string {
				s, err := ns.ResolveName(node, kindType[kind])
				if err != nil {
					return "err"
				}
				return hexOrDash([]byte(s))
			})
			lines = append(lines, fmt.Sprintf("nsr %s %s %s%s:%s", hexOrDash([]byte(nsName)), histStr(hist), form, kind, hexParts(parts)))
			real = append(real, res)
		}
	}
	diffLines(r, lines, real)
	r.sample(map[string]string{"op": lines[0], "real": real[0]})
	r.sample(map[string]string{"op": lines[len(lines)-1], "real": real[len(real)-1]})
	return r
}

// ---------------------------------------------------------------- oracle-C14

type c14ref struct {
	form  string // q r p
	kind  string // c f k
	parts []string
	want  string // filled from the Lean spec
}

type c14prog struct {
	src   string
	ns    string
	hist  []useDecl
	refs  []c14ref // in source order
	decls []string // declared short names in source order
}

func nameText(form string, parts []string) string {
	t := strings.Join(parts, "\\")
	switch form {
	case "q":
		return "\\" + t
	case "r":
		return "namespace\\" + t
	}
	return t
}

// genC14: one namespace block, use declarations (plain, aliased, group use, mixed group use), then
// statements that reference names at every compile-time-resolved position.
func genC14(rng *rand.Rand) c14prog {
	var p c14prog
	id := func() string { return []string{"Foo", "bar", "Baz", "QUX", "x1", "Aa", "bB"}[rng.Intn(7)] }
	name := func(n int) []string {
		out := make([]string, 1+rng.Intn(n))
		for i := range out {
			out[i] = id()
		}
		return out
	}
	var b strings.Builder
	b.WriteString("<?php\n")
	braced := false
	switch rng.Intn(3) {
	case 0:
		p.ns = strings.Join(name(2), "\\")
		b.WriteString("namespace " + p.ns + ";\n")
	case 1:
		p.ns = strings.Join(name(2), "\\")
		b.WriteString("namespace " + p.ns + " {\n")
		braced = true
	}
	kw := map[string]string{"c": "", "f": "function ", "k": "const "}
	for j := rng.Intn(5); j > 0; j-- {
		k := []string{"c", "f", "k"}[rng.Intn(3)]
		switch rng.Intn(3) {
		case 0: // use A\B [as C];
			t := name(3)
			al := t[len(t)-1]
			txt := strings.Join(t, "\\")
			if rng.Intn(2) == 0 {
				al = id()
				txt += " as " + al
			}
			b.WriteString("use " + kw[k] + txt + ";\n")
			p.hist = append(p.hist, useDecl{k, strings.Join(t, "\\"), al})
		case 1: // group use
			pre := name(2)
			var items []string
			for m := 1 + rng.Intn(3); m > 0; m-- {
				t := name(2)
				al := t[len(t)-1]
				it := strings.Join(t, "\\")
				if rng.Intn(2) == 0 {
					al = id()
					it += " as " + al
				}
				items = append(items, it)
				p.hist = append(p.hist, useDecl{k, strings.Join(append(append([]string{}, pre...), t...), "\\"), al})
			}
			b.WriteString("use " + kw[k] + strings.Join(pre, "\\") + "\\{" + strings.Join(items, ", ") + "};\n")
		case 2: // mixed group use
			pre := name(2)
			var items []string
			for m := 1 + rng.Intn(3); m > 0; m-- {
				kk := []string{"c", "f", "k"}[rng.Intn(3)]
				t := name(2)
				al := t[len(t)-1]
				it := kw[kk] + strings.Join(t, "\\")
				if rng.Intn(2) == 0 {
					al = id()
					it += " as " + al
				}
				items = append(items, it)
				p.hist = append(p.hist, useDecl{kk, strings.Join(append(append([]string{}, pre...), t...), "\\"), al})
			}
			b.WriteString("use " + strings.Join(pre, "\\") + "\\{" + strings.Join(items, ", ") + "};\n")
		}
	}
	ref := func(kind string) string {
		form := []string{"q", "r", "p", "p", "p"}[rng.Intn(5)]
		parts := name(3)
		if form == "p" && rng.Intn(6) == 0 {
			switch kind {
			case "c":
				parts = []string{[]string{"self", "SELF", "PARENT", "int", "String", "void", "iterable", "object", "float", "bool"}[rng.Intn(10)]}
			case "k":
				parts = []string{[]string{"true", "FALSE", "Null"}[rng.Intn(3)]}
			}
		} else if form == "p" && rng.Intn(6) == 0 {
			// a qualified name whose FIRST segment spells a reserved word: for PHP an ordinary namespace segment
			var first string
			switch kind {
			case "k":
				first = []string{"true", "False", "NULL", "self"}[rng.Intn(4)]
			default:
				first = []string{"self", "Parent", "int", "String", "void", "Iterable", "Object", "float", "bool", "null"}[rng.Intn(10)]
			}
			parts = append([]string{first}, name(2)...)
		}
		p.refs = append(p.refs, c14ref{form: form, kind: kind, parts: parts})
		return nameText(form, parts)
	}
	decl := func() string {
		d := id() + fmt.Sprint(len(p.decls))
		p.decls = append(p.decls, d)
		return d
	}
	for j := 2 + rng.Intn(5); j > 0; j-- {
		switch rng.Intn(9) {
		case 0:
			d := decl()
			ext := ref("c")
			i1, i2 := ref("c"), ref("c")
			fmt.Fprintf(&b, "class %s extends %s implements %s, %s { use ", d, ext, i1, i2)
			t1, t2 := ref("c"), ref("c")
			fmt.Fprintf(&b, "%s, %s { ", t1, t2)
			fmt.Fprintf(&b, "%s::a insteadof %s; ", ref("c"), ref("c"))
			fmt.Fprintf(&b, "%s::b as c; } public ", ref("c"))
			fmt.Fprintf(&b, "%s $p; function m(", ref("c"))
			fmt.Fprintf(&b, "%s $x, ?", ref("c"))
			fmt.Fprintf(&b, "%s $y): ", ref("c"))
			fmt.Fprintf(&b, "%s {} }\n", ref("c"))
		case 1:
			d := decl()
			fmt.Fprintf(&b, "interface %s extends %s, ", d, ref("c"))
			fmt.Fprintf(&b, "%s {}\n", ref("c"))
		case 2:
			fmt.Fprintf(&b, "trait %s {}\n", decl())
		case 3:
			d := decl()
			fmt.Fprintf(&b, "function %s(%s $a, ", d, ref("c"))
			fmt.Fprintf(&b, "%s ...$b): ?", ref("c"))
			fmt.Fprintf(&b, "%s {}\n", ref("c"))
		case 4:
			fmt.Fprintf(&b, "const %s = 1, %s = 2;\n", decl(), decl())
		case 5:
			fmt.Fprintf(&b, "$o = new %s; ", ref("c"))
			fmt.Fprintf(&b, "%s::f(); ", ref("c"))
			fmt.Fprintf(&b, "%s::$s; ", ref("c"))
			fmt.Fprintf(&b, "%s::K; ", ref("c"))
			fmt.Fprintf(&b, "$o instanceof %s;\n", ref("c"))
		case 6:
			fmt.Fprintf(&b, "try {} catch (%s | ", ref("c"))
			fmt.Fprintf(&b, "%s $e) {}\n", ref("c"))
		case 7:
			fmt.Fprintf(&b, "%s(1); ", ref("f"))
			fmt.Fprintf(&b, "echo %s;\n", ref("k"))
		case 8:
			fmt.Fprintf(&b, "$f = fn(%s $x): ", ref("c"))
			fmt.Fprintf(&b, "%s => 1; $g = function(", ref("c"))
			fmt.Fprintf(&b, "%s $x): ", ref("c"))
			fmt.Fprintf(&b, "%s {};\n", ref("c"))
		}
	}
	if braced {
		b.WriteString("}\n")
	}
	p.src = b.String()
	return p
}

// isDeclKind: node kinds whose map entry is a declaration
func isDecl(n ast.Vertex) bool {
	switch n.(type) {
	case *ast.StmtClass, *ast.StmtInterface, *ast.StmtTrait, *ast.StmtFunction, *ast.StmtConstant:
		return true
	}
	return false
}

func oracleC14() *Result {
	r := &Result{Rule: "generated programs: one namespace block (none / `namespace N;` / `namespace N { }`), use / aliased use / group use / mixed group use of the three kinds, then declarations and references of all three forms at every compile-time-resolved position (extends, implements, trait use + adaptations, property / parameter / return / nullable types, new, static call / property / constant, instanceof, catch, function call, constant fetch, arrow function and closure types) incl. special names in mixed case; real parse (7.4) + real resolver; every entry of ResolvedNames compared, in source order, with the Lean spec's answer for the same abstract program (driver `nsrspec`), declarations with `nsrdecl`; nothing else may be in the map. Non-trivial = program with >= 1 reference and >= 1 use declaration"}
	rng := newRand("C14")
	n := 400
	if opts.Tier == "thorough" {
		n = 8000
	}
	type job struct {
		p    c14prog
		refs []ast.Vertex
		dcl  []ast.Vertex
		got  map[ast.Vertex]string
	}
	var jobs []job
	var lines []string
	for i := 0; i < n; i++ {
		p := genC14(rng)
		r.Evaluations++
		po := parseSafe([]byte(p.src), ver(7, 4), true)
		if po.Panic != "" || po.Root == nil || len(po.Errs) > 0 {
			r.inc("rejected:not-error-free")
			if len(r.Samples) < 2 {
				r.sample(map[string]string{"rejected": p.src, "errs": errsStr(po.Errs) + po.Panic})
			}
			continue
		}
		nsr := nsresolver.NewNamespaceResolver()
		pan := guard(func() string { traverser.NewTraverser(nsr).Traverse(po.Root); return "" })
		if pan != "" {
			r.fail(Failure{Site: "resolver-panic", Kind: "input", Input: p.src, Detail: pan})
			continue
		}
		// entries in source order: declarations and references
		type ent struct {
			n   ast.Vertex
			pos int
		}
		var es []ent
		for k := range nsr.ResolvedNames {
			ps := -1
			if k.GetPosition() != nil {
				ps = k.GetPosition().StartPos
			}
			es = append(es, ent{k, ps})
		}
		sort.Slice(es, func(a, b int) bool { return es[a].pos < es[b].pos })
		j := job{p: p, got: nsr.ResolvedNames}
		for _, e := range es {
			if isDecl(e.n) {
				j.dcl = append(j.dcl, e.n)
			} else {
				j.refs = append(j.refs, e.n)
			}
		}
		jobs = append(jobs, j)
		for _, rf := range p.refs {
			lines = append(lines, fmt.Sprintf("nsrspec %s %s %s%s:%s", hexOrDash([]byte(p.ns)), histStr(p.hist), rf.form, rf.kind, hexParts(rf.parts)))
		}
		for _, d := range p.decls {
			lines = append(lines, fmt.Sprintf("nsrdecl %s %s", hexOrDash([]byte(p.ns)), hexOrDash([]byte(d))))
		}
	}
	ans, err := modelAnswers(lines)
	if err != nil {
		r.fail(Failure{Site: "driver", Kind: "input", Detail: err.Error()})
		return r
	}
	li := 0
	unhexS := func(h string) string {
		if h == "-" {
			return ""
		}
		var b []byte
		fmt.Sscanf(h, "%x", &b)
		return string(b)
	}
	seen := map[string]bool{}
	for _, j := range jobs {
		p := j.p
		wantRefs := ans[li : li+len(p.refs)]
		li += len(p.refs)
		wantDecl := ans[li : li+len(p.decls)]
		li += len(p.decls)
		if len(p.refs) > 0 && len(p.hist) > 0 && !seen[p.src] {
			seen[p.src] = true
			r.DistinctNontrivial++
		}
		if len(j.refs) != len(p.refs) {
			// which positions are missing / extra: compare by name text
			r.fail(Failure{Site: "map-size:references", Kind: "input", Input: p.src,
				Detail: fmt.Sprintf("the program has %d compile-time-resolved references, ResolvedNames has %d reference entries (%s)", len(p.refs), len(j.refs), describeEntries(j.refs, j.got))})
			continue
		}
		if len(j.dcl) != len(p.decls) {
			r.fail(Failure{Site: "map-size:declarations", Kind: "input", Input: p.src,
				Detail: fmt.Sprintf("the program has %d namespaced declarations, ResolvedNames has %d declaration entries", len(p.decls), len(j.dcl))})
			continue
		}
		for i, rf := range p.refs {
			want := unhexS(wantRefs[i])
			got := j.got[j.refs[i]]
			if got != want {
				r.fail(Failure{Site: "resolved:" + rf.form + rf.kind + ":" + kindName(parentOfRef(j.refs[i])), Kind: "input", Input: p.src,
					Detail: fmt.Sprintf("reference #%d `%s` (%s, kind %s) resolved to %q, PHP's rules give %q (namespace %q, uses %v)", i, nameText(rf.form, rf.parts), rf.form, rf.kind, got, want, p.ns, p.hist)})
				break
			}
		}
		for i := range p.decls {
			want := unhexS(wantDecl[i])
			if got := j.got[j.dcl[i]]; got != want {
				r.fail(Failure{Site: "declared:" + kindName(j.dcl[i]), Kind: "input", Input: p.src, Detail: fmt.Sprintf("declaration #%d mapped to %q, expected %q", i, got, want)})
				break
			}
		}
		if len(r.Samples) < 6 && r.DistinctNontrivial%50 == 1 {
			r.sample(map[string]string{"program": p.src})
		}
	}
	return r
}

func parentOfRef(n ast.Vertex) ast.Vertex { return n }

func describeEntries(ns []ast.Vertex, m map[ast.Vertex]string) string {
	var ss []string
	for _, n := range ns {
		ss = append(ss, reflect.TypeOf(n).Elem().Name()+"="+m[n])
	}
	return clip(strings.Join(ss, ","), 300)
}
