//go:build verif

package main

import (
	"fmt"
	"io"
	"os"
	"regexp"
	"strconv"
	"strings"
	"sync"

	"github.com/z7zmey/php-parser/pkg/conf"
	"github.com/z7zmey/php-parser/pkg/errors"
	"github.com/z7zmey/php-parser/pkg/verifbridge"
)

func init() { commands["diff-yy"] = diffYY }

// diff-yy (T-diff, M-YY): the goyacc driver of both generated parsers against Model/YY.lean running over
// the regenerated LALR tables.  For every input the real scanner's external token numbers are fed to
// the model (`yy <5|7> <chars>`); the real parser runs with goyacc's own debug trace switched on
// (yyDebug = 2, hook internal/php{5,7}/verif_debug.go) and its moves — every reduction with the state
// it happens in, every reported error with state and lookahead, every state popped and every token
// discarded during recovery, the return code — and the text of every syntax-error message must be
// the model's.

var yyStdoutMu sync.Mutex

// captureStdout runs f with os.Stdout redirected into a buffer (goyacc's trace is printed with fmt.Printf).
func captureStdout(f func()) string {
	yyStdoutMu.Lock()
	defer yyStdoutMu.Unlock()
	old := os.Stdout
	r, w, err := os.Pipe()
	if err != nil {
		return ""
	}
	os.Stdout = w
	done := make(chan string)
	go func() {
		b, _ := io.ReadAll(r)
		done <- string(b)
	}()
	func() {
		defer func() {
			os.Stdout = old
			w.Close()
		}()
		f()
	}()
	return <-done
}

var (
	reReduce  = regexp.MustCompile(`^reduce (\d+) in:$`)
	reState   = regexp.MustCompile(`^\tstate-(\d+)$`)
	reSaw     = regexp.MustCompile(`^state-(\d+) saw (.*)$`)
	rePops    = regexp.MustCompile(`^error recovery pops state (\d+)$`)
	reDiscard = regexp.MustCompile(`^error recovery discards (.*)$`)
)

// realYY runs one generated parser on src; returns the canonical move list and the error messages.
func realYY(src []byte, fam int, major, minor uint64) (moves []string, msgs []string, chars []int, pan string) {
	names := verifbridge.Php7Toknames()
	if fam == 5 {
		names = verifbridge.Php5Toknames()
	}
	num := map[string]int{}
	for i, n := range names {
		num[n] = i + 1
	}
	// the chars the scanner hands to yylex1
	toks, _, lp := lexAll(src, major, minor)
	if lp != "" {
		return nil, nil, nil, "lexer: " + lp
	}
	for _, t := range toks {
		chars = append(chars, int(t.ID))
	}
	var code int
	out := captureStdout(func() {
		defer func() {
			if e := recover(); e != nil {
				pan = fmt.Sprint(e)
			}
		}()
		cfg := conf.Config{Version: ver(major, minor), ErrorHandlerFunc: func(e *errors.Error) {
			if strings.HasPrefix(e.Msg, "syntax error") {
				msgs = append(msgs, e.Msg)
			}
		}}
		lx := verifbridge.NewLexer(src, cfg)
		var p verifbridge.Parser
		if fam == 5 {
			verifbridge.SetPhp5Debug(2)
			defer verifbridge.SetPhp5Debug(0)
			p = verifbridge.NewPhp5Parser(lx, cfg)
		} else {
			verifbridge.SetPhp7Debug(2)
			defer verifbridge.SetPhp7Debug(0)
			p = verifbridge.NewPhp7Parser(lx, cfg)
		}
		code = p.Parse()
	})
	if pan != "" {
		return
	}
	lines := strings.Split(out, "\n")
	tokNum := func(name string) string {
		if n, ok := num[name]; ok {
			return strconv.Itoa(n)
		}
		return "?" + name
	}
	for i := 0; i < len(lines); i++ {
		l := lines[i]
		switch {
		case l == "":
		case reReduce.MatchString(l):
			m := reReduce.FindStringSubmatch(l)
			st := "?"
			if i+1 < len(lines) {
				if m2 := reState.FindStringSubmatch(lines[i+1]); m2 != nil {
					st = m2[1]
					i++
				}
			}
			moves = append(moves, "r"+m[1]+":"+st)
		case reSaw.MatchString(l):
			m := reSaw.FindStringSubmatch(l)
			moves = append(moves, "w"+m[1]+":"+tokNum(m[2]))
		case rePops.MatchString(l):
			moves = append(moves, "p"+rePops.FindStringSubmatch(l)[1])
		case reDiscard.MatchString(l):
			moves = append(moves, "d"+tokNum(reDiscard.FindStringSubmatch(l)[1]))
		default:
			moves = append(moves, "?"+l)
		}
	}
	if code == 0 {
		moves = append(moves, "A")
	} else {
		moves = append(moves, "B")
	}
	moves = append([]string{strconv.Itoa(code)}, moves...)
	return
}

// modelYYCanon turns the model's answer into the real side's vocabulary: the `w` move loses its list of
// expected tokens, which becomes the text of the message goyacc builds from it.
func modelYYCanon(ans string, fam int) (moves string, msgs []string) {
	names := verifbridge.Php7Toknames()
	if fam == 5 {
		names = verifbridge.Php5Toknames()
	}
	name := func(s string) string {
		n, err := strconv.Atoi(s)
		if err != nil || n < 1 || n > len(names) {
			return "tok-" + s
		}
		return names[n-1]
	}
	var out []string
	for _, w := range strings.Fields(ans) {
		if strings.HasPrefix(w, "w") {
			parts := strings.SplitN(w[1:], ":", 3)
			if len(parts) == 3 {
				out = append(out, "w"+parts[0]+":"+parts[1])
				msg := "syntax error: unexpected " + name(parts[1])
				if strings.HasPrefix(parts[2], "e") && len(parts[2]) > 1 {
					for i, e := range strings.Split(parts[2][1:], "+") {
						if i == 0 {
							msg += ", expecting "
						} else {
							msg += " or "
						}
						msg += name(e)
					}
				}
				msgs = append(msgs, msg)
				continue
			}
		}
		out = append(out, w)
	}
	return strings.Join(out, " "), msgs
}

func yyInputs(r *Result) (srcs [][]byte, tags []string) {
	rng := newRand("diff-yy")
	add := func(b []byte, tag string) {
		srcs = append(srcs, b)
		tags = append(tags, tag)
	}
	for _, c := range regressionInputs("yy") {
		add(c, "regression")
	}
	for _, pre := range []string{"\xef\xbb\xbf", "#!/usr/bin/env php\n", "<html>\n", "\xef\xbb\xbf#!/bin/php\n"} {
		for _, code := range []string{"<?php echo 1;", "<?php\n$a = ;\n", "<?php foo(;\n$b = 1;", "<?php\nnamespace A;\nclass B {}\n", "<?= $x ?>\ntext"} {
			add([]byte(pre+code), "prefixed")
		}
	}
	for _, c := range heredocLookalikes() {
		add(c, "heredoc-lookalike")
	}
	{
		st, ca := heredocTrailers()
		for _, c := range append(st, ca...) {
			add(c, "heredoc-trailer")
		}
	}
	var base [][]byte
	for _, s := range loadCorpus() {
		if len(s.Src) < 6000 {
			base = append(base, s.Src)
			add(s.Src, "corpus")
		}
	}
	for _, s := range cfgSentences(rng) {
		base = append(base, s)
		add(s, "g-cfg")
	}
	nm := 3
	if opts.Tier == "thorough" {
		nm = 24
	}
	for _, s := range base {
		toks, _, pan := lexAll(s, 7, 4)
		if pan != "" || len(toks) < 2 {
			continue
		}
		for j := 0; j < nm; j++ {
			t := toks[rng.Intn(len(toks))]
			switch rng.Intn(4) {
			case 0:
				add(append(append([]byte(nil), s[:t.S]...), s[t.E:]...), "token-delete")
			case 1:
				u := toks[rng.Intn(len(toks))]
				add(append(append(append([]byte(nil), s[:t.S]...), s[u.S:u.E]...), s[t.S:]...), "token-insert")
			case 2:
				add(append([]byte(nil), s[:t.E]...), "truncate")
			case 3:
				u := toks[rng.Intn(len(toks))]
				if u.S > t.E {
					b := append([]byte(nil), s[:t.S]...)
					b = append(b, s[u.S:u.E]...)
					b = append(b, s[t.E:u.S]...)
					b = append(b, s[t.S:t.E]...)
					b = append(b, s[u.E:]...)
					add(b, "token-swap")
				}
			}
		}
	}
	k := 2
	if opts.Tier == "thorough" {
		k = 3
	}
	for _, b := range genBytesExhaustive(k) {
		add(b, "g-bytes")
	}
	// (state, lookahead) coverage of the action tables: every pair in the thorough tier, every fifth in the quick tier
	for _, fam := range []int{7, 5} {
		for i, b := range stateTokenInputs(fam, rng, base) {
			if opts.Tier == "thorough" || i%5 == 0 {
				add(b, "state-x-token")
			}
		}
	}
	return
}

// yyInputsThin: yyInputs for the correspondence runs whose per-case cost is a whole tree — in the thorough
// tier every k-th of the mutated / exhaustive inputs (the driver run diff-yy takes all of them)
func yyInputsThin(r *Result, k int) (srcs [][]byte, tags []string) {
	a, t := yyInputs(r)
	if opts.Tier != "thorough" || k <= 1 {
		return a, t
	}
	n := 0
	for i := range a {
		switch t[i] {
		case "regression", "corpus", "g-cfg":
		default:
			n++
			if n%k != 0 {
				continue
			}
		}
		srcs = append(srcs, a[i])
		tags = append(tags, t[i])
	}
	return
}

func diffYY() *Result {
	r := &Result{Rule: "every input (repository corpus, grammar-driven sentences, the same with a token deleted / inserted / swapped or the text truncated, exhaustive short byte strings after mode prefixes) under 5.6 and 7.4: the model's moves (reductions with their states, reported errors with state and lookahead, popped states, discarded tokens, return code) and syntax-error messages equal the real driver's debug trace and delivered messages"}
	srcs, tags := yyInputs(r)
	var lines, real []string
	type meta struct {
		src  []byte
		fam  int
		msgs []string
	}
	var metas []meta
	seen := map[string]bool{}
	stat := map[string]int{}
	for i, s := range srcs {
		for _, fam := range []int{7, 5} {
			var mj, mn uint64 = 7, 4
			if fam == 5 {
				mj, mn = 5, 6
			}
			moves, msgs, chars, pan := realYY(s, fam, mj, mn)
			if pan != "" {
				stat["skipped:real-panic"]++
				continue
			}
			key := fmt.Sprint(fam, chars)
			if seen[key] {
				stat["duplicate-token-sequence"]++
				continue
			}
			seen[key] = true
			cs := make([]string, len(chars))
			for j, c := range chars {
				cs[j] = strconv.Itoa(c)
			}
			arg := "-"
			if len(cs) > 0 {
				arg = strings.Join(cs, ",")
			}
			lines = append(lines, fmt.Sprintf("yy %d %s", fam, arg))
			real = append(real, strings.Join(moves, " "))
			metas = append(metas, meta{s, fam, msgs})
			stat["tag:"+tags[i]]++
			if moves[0] == "0" && len(msgs) == 0 {
				stat["accepted-silently"]++
			} else if moves[0] == "0" {
				stat["accepted-after-recovery"]++
			} else {
				stat["aborted"]++
			}
			for _, m := range moves {
				switch m[0] {
				case 'p':
					stat["moves:pop"]++
				case 'd':
					stat["moves:discard"]++
				case 'w':
					stat["moves:error"]++
				case 'r':
					stat["moves:reduce"]++
				}
			}
		}
	}
	ans, err := modelAnswers(lines)
	if err != nil {
		r.Mismatches = append(r.Mismatches, Mismatch{Op: "<driver>", Model: err.Error()})
		return r
	}
	r.Cases = len(lines)
	for i := range lines {
		mv, msgs := modelYYCanon(ans[i], metas[i].fam)
		bad := ""
		if mv != real[i] {
			bad = "moves"
		} else if strings.Join(msgs, "\x00") != strings.Join(metas[i].msgs, "\x00") {
			bad = "messages"
		}
		if bad != "" && len(r.Mismatches) < 20 {
			r.Mismatches = append(r.Mismatches, Mismatch{Op: fmt.Sprintf("php%d %s (%s differ)", metas[i].fam, printable(metas[i].src), bad),
				Model: clip(mv+" | "+strings.Join(msgs, " / "), 1500), Real: clip(real[i]+" | "+strings.Join(metas[i].msgs, " / "), 1500)})
		}
	}
	for k, v := range stat {
		r.stat(k, v)
	}
	r.Evaluations = len(lines)
	r.DistinctNontrivial = len(lines)
	return r
}
