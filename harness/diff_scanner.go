//go:build verif

package main

import (
	"encoding/hex"
	"fmt"
	"regexp"
	"strconv"
	"strings"

	"github.com/z7zmey/php-parser/pkg/conf"
	"github.com/z7zmey/php-parser/pkg/errors"
	"github.com/z7zmey/php-parser/pkg/token"
	"github.com/z7zmey/php-parser/pkg/verifbridge"
)

func init() { commands["diff-scanner"] = diffScanner }

// diff-scanner (T-diff, M-SCANX): the executable scanner model of Model/Scan.lean — control skeleton of
// ragel's -G2 code, transition table and action blocks regenerated from scanner.go, glue functions —
// against the real scanner on whole sources: every token (id, start, end, start line, end line), every
// free-floating token attached to it (id, offsets, lines), every lexer error (offending byte, lines,
// offsets), the line table left behind, under a version before 7.3 and one from 7.3 on.

var reASCII = regexp.MustCompile(`\(ASCII=(\d+)\)`)

func realScan(src []byte, major, minor uint64) (out string) {
	var errs []string
	var toks []string
	fault := "-"
	var lx *verifbridge.Lexer
	func() {
		defer func() {
			if e := recover(); e != nil {
				fault = "fault"
			}
		}()
		cfg := conf.Config{Version: ver(major, minor), ErrorHandlerFunc: func(e *errors.Error) {
			c := "?"
			if m := reASCII.FindStringSubmatch(e.Msg); m != nil {
				c = m[1]
			}
			if e.Pos != nil {
				errs = append(errs, fmt.Sprintf("%s:%d:%d:%d:%d", c, e.Pos.StartLine, e.Pos.EndLine, e.Pos.StartPos, e.Pos.EndPos))
			} else {
				errs = append(errs, c+":nil")
			}
		}}
		lx = verifbridge.NewLexer(src, cfg)
		for i := 0; i < len(src)+16; i++ {
			t := lx.Lex()
			pos := "-"
			if t.Position != nil {
				pos = fmt.Sprintf("%d:%d:%d:%d", t.Position.StartLine, t.Position.EndLine, t.Position.StartPos, t.Position.EndPos)
			}
			var ffs []string
			for _, f := range t.FreeFloating {
				if f.Position != nil {
					ffs = append(ffs, fmt.Sprintf("%d:%d:%d:%d:%d", int(f.ID), f.Position.StartPos, f.Position.EndPos, f.Position.StartLine, f.Position.EndLine))
				} else {
					ffs = append(ffs, fmt.Sprintf("%d:nil", int(f.ID)))
				}
			}
			st := lx.VerifState()
			id := int(t.ID)
			if id < 0 {
				id = 0
			}
			toks = append(toks, fmt.Sprintf("%d,%d,%d,%s|%s", id, st.Ts, st.Te, pos, strings.Join(ffs, "+")))
			if t.ID <= 0 {
				break
			}
		}
	}()
	es := "-"
	if len(errs) > 0 {
		es = strings.Join(errs, "+")
	}
	nl := "-"
	if lx != nil {
		nl = natsStr(lx.VerifNewLinesData())
	}
	if fault != "-" {
		return "fault"
	}
	return strings.Join(toks, ";") + " E " + es + " N " + nl + " X " + fault
}

func diffScanner() *Result {
	r := &Result{Rule: "every input (repository corpus, grammar-driven sentences and their mutations, member chains, (state x token) inputs sampled, exhaustive short byte strings after mode prefixes, every byte value after interpolation starters) under 7.2 and 7.4: the model's token stream — ids, ts / te, positions with lines, free-floating tokens with ids, offsets and lines —, lexer errors and final line table equal the real scanner's; an input on which the real scanner panics must make the model fault"}
	srcs, tags := yyInputs(r)
	// bytes the parser-level generators hardly produce: every byte value in every string-like mode
	for _, p := range []string{"<?php \"", "<?php `", "<?php <<<A\n", "<?php <<<'A'\n", "<?php \"$a", "<?php \"{$a", "<?php $a->", "<?php \"$a[", "<?php '", "<?php ", "a", "<?php /* ", "<?php // ", "<?php __halt_compiler();"} {
		for _, s := range []string{"", "$", "{$", "${", "\\", "-", "<", "?", "\r", "\n"} {
			for c := 0; c < 256; c++ {
				srcs = append(srcs, append([]byte(p+s), byte(c)))
				tags = append(tags, "mode-bytes")
				srcs = append(srcs, append(append([]byte(p+s), byte(c)), "\nA;\n\" ?>x"...))
				tags = append(tags, "mode-bytes")
			}
		}
	}
	var lines, real []string
	var metas []int
	seen := map[string]bool{}
	stat := map[string]int{}
	for i, s := range srcs {
		if len(s) > 20000 {
			continue
		}
		for _, v := range [][2]uint64{{7, 4}, {7, 2}} {
			flag := "1"
			if v[1] < 3 {
				flag = "0"
			}
			key := flag + string(s)
			if seen[key] {
				continue
			}
			seen[key] = true
			h := hex.EncodeToString(s)
			if h == "" {
				h = "-"
			}
			lines = append(lines, "scan "+flag+" "+h)
			real = append(real, realScan(s, v[0], v[1]))
			metas = append(metas, i)
			stat["tag:"+tags[i]]++
		}
	}
	ans, err := modelAnswers(lines)
	if err != nil {
		r.Mismatches = append(r.Mismatches, Mismatch{Op: "<driver>", Model: err.Error()})
		return r
	}
	r.Cases = len(lines)
	ntok := 0
	for i := range lines {
		a := ans[i]
		ok := a == real[i]
		if real[i] == "fault" {
			ok = strings.Contains(a, " X fault")
			stat["real-scanner-panics"]++
		}
		ntok += strings.Count(real[i], ";") + 1
		if !ok && len(r.Mismatches) < 20 {
			d := firstDiff([]byte(a), []byte(real[i]))
			lo := maxInt(0, d-80)
			r.Mismatches = append(r.Mismatches, Mismatch{Op: fmt.Sprintf("%s %s (first difference at %d)", lines[i][:6], printable(srcs[metas[i]]), d),
				Model: clip(a[minInt(lo, len(a)):], 300), Real: clip(real[i][minInt(lo, len(real[i])):], 300)})
		}
		if !ok {
			stat["mismatch"]++
		}
	}
	stat["tokens_compared"] = ntok
	for k, v := range stat {
		r.stat(k, v)
	}
	r.Evaluations = len(lines)
	r.DistinctNontrivial = len(lines)
	_ = strconv.Itoa
	_ = token.T_STRING
	return r
}
