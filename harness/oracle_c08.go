//go:build verif

package main

import (
	"fmt"
	"strings"
)

func init() {
	commands["oracle-C08"] = oracleC08
	oracles["C08"] = evalC08
}

// evalC08: src is "base \x00 variant": both must parse without errors (else rejection) and give the
// same structure (kinds, nesting, roles, values).
func evalC08(src []byte, cfg string) (o Outcome) {
	sp := strings.SplitN(string(src), "\x00", 2)
	if len(sp) != 2 {
		o.Reject = "bad-task"
		return
	}
	a, b := parseVer(cfg)
	pb := parseSafe([]byte(sp[0]), ver(a, b), true)
	if pb.Panic != "" || pb.Root == nil || len(pb.Errs) > 0 {
		o.Reject = "base-not-error-free"
		return
	}
	pv := parseSafe([]byte(sp[1]), ver(a, b), true)
	if pv.Panic != "" {
		o.Fails = append(o.Fails, Failure{Site: "panic:" + pv.Site, Kind: "input", Input: printable([]byte(sp[1])), Detail: clip(pv.Panic, 200)})
		return
	}
	site := ""
	detail := ""
	if pv.Root == nil {
		site = "trivia-loses-tree"
		detail = "the base text parses, the same tokens with other trivia give no tree: " + clip(errsStr(pv.Errs), 200)
	} else if sa, sb := structStr(pb.Root), structStr(pv.Root); sa != sb {
		i := firstDiff([]byte(sa), []byte(sb))
		lo := maxInt(0, i-40)
		site = "structure-differs"
		detail = fmt.Sprintf("structure differs at %d: base …%s variant …%s", i, clip(sa[lo:], 100), clip(sb[lo:], 100))
	}
	if site != "" {
		if loneCR([]byte(sp[1])) {
			site += ":lone-CR"
		}
		o.Fails = append(o.Fails, Failure{Site: site, Kind: "input", Input: printable([]byte(sp[1])), Hex: fmt.Sprintf("%x", src), Detail: detail + "  base: " + printable([]byte(sp[0]))})
	}
	if site == "" && len(pv.Errs) > 0 {
		// same structure but an error was reported: that is C03's concern (a valid program must be accepted
		// silently), not a change of the tree
		o.Tags = append(o.Tags, "variant-reports-error-but-same-structure")
	}
	o.Nontrivial = true
	return
}

var reservedMemberNames = []string{"list", "class", "print", "function", "array", "echo", "if", "new", "static", "return", "use", "namespace", "foreach", "exit", "die", "isset", "empty", "global", "var", "public", "abstract", "final", "clone", "include", "require_once", "eval", "unset", "catch", "default", "and", "or", "xor", "instanceof", "yield", "fn", "callable", "trait", "insteadof", "__halt_compiler", "__CLASS__", "__LINE__", "self", "parent", "null", "true"}

func loneCR(b []byte) bool {
	for i, c := range b {
		if c == '\r' && (i+1 == len(b) || b[i+1] != '\n') {
			return true
		}
	}
	return false
}

func oracleC08() *Result {
	r := &Result{Rule: "metamorphic: a grammar-driven sentence (G-cfg, both grammars, production-targeted) or an error-free corpus snippet, and the same token sequence re-rendered with other trivia before every token outside string-like modes (blanks, tabs, LF, CRLF, lone CR, /* */, /** */, //…EOL, #…EOL); both parsed by the real parser; both must be error-free and their structure projections (kinds, nesting, roles, values; reflection, no tokens / positions) equal. Non-trivial = distinct (base, variant) pair whose base is error-free"}
	rng := newRand("C08")
	var tasks []Task
	add := func(base, variant []byte, v string, tag string) {
		tasks = append(tasks, Task{Oracle: "C08", Cfg: v, Src: append(append(append([]byte(nil), base...), 0), variant...), Tag: tag})
	}
	nvar := 4
	if opts.Tier == "thorough" {
		nvar = 10
	}
	for _, fam := range []int{7, 5} {
		v := "7.4"
		if fam == 5 {
			v = "5.6"
		}
		n := 150
		if opts.Tier == "thorough" {
			n = 2000
		}
		ss := genCfg(rng, fam, n, nil, lastCfgStats)
		if g := loadCfg(fam); g != nil {
			for _, p := range g.Prods {
				ss = append(ss, genCfg(rng, fam, 1, []int{p.N}, lastCfgStats)...)
			}
		}
		for _, s := range ss {
			ks := []int{8, 3, 9, rng.Intn(8)}
			if opts.Tier == "thorough" {
				ks = []int{0, 1, 2, 3, 4, 5, 6, 7, 8, 9}
			}
			for _, k := range ks[:nvar] {
				for _, tv := range withTriviaKinds(rng, s.Src, fam, k) {
					add(s.Src, tv, v, "g-cfg")
				}
			}
		}
	}
	// member names that spell a reserved word: after `->` the scanner is in a mode of its own, where PHP
	// allows blanks and line terminators (not comments) before the name
	for _, fam := range []int{7, 5} {
		v := "7.4"
		if fam == 5 {
			v = "5.6"
		}
		for _, w := range reservedMemberNames {
			for _, form := range []string{"<?php $a -> %s ;", "<?php $a -> %s ( ) ;", "<?php $a -> b -> %s -> c ;", "<?php echo $a -> %s [ 0 ] , 1 ;", "<?php $a -> %s = $b -> %s ;"} {
				base := []byte(strings.ReplaceAll(form, "%s", w))
				for _, mode := range []int{0, 1, 2} {
					for _, tv := range withTriviaKinds(rng, base, fam, mode) {
						add(base, tv, v, "reserved-member")
					}
				}
			}
		}
	}
	for _, s := range loadCorpus() {
		if len(s.Src) > 3000 {
			continue
		}
		fam := s.Family
		if fam == 0 {
			fam = 7
		}
		v := "7.4"
		if fam == 5 {
			v = "5.6"
		}
		for _, k := range []int{0, 1, 9} {
			for _, tv := range withTriviaKinds(rng, s.Src, fam, k) {
				add(s.Src, tv, v, "corpus")
			}
		}
	}
	// trivia on the line of a heredoc's closing label (7.3+): the structure must be that of the plain form
	for _, open := range []string{"<<<EOT", "<<<'EOT'"} {
		base := []byte("<?php\n$a = " + open + "\nfoo\nEOT;\n$c = " + open + "\nbar\nEOT;\necho 1;\n")
		for _, tr := range []string{"; // first", ";\t", "; ", ";# c", ";/* c */", " ;", " /* c */ ;"} {
			add(base, []byte("<?php\n$a = "+open+"\nfoo\nEOT"+tr+"\n$c = "+open+"\nbar\nEOT;\necho 1;\n"), "7.4", "heredoc-trailer")
		}
	}
	for _, src := range regressionInputs("C08") {
		for _, k := range []int{9, 4, 3, 1} {
			for _, tv := range withTriviaKinds(rng, src, 7, k) {
				add(src, tv, "7.4", "regression")
			}
		}
	}
	runOracle(r, tasks)
	return r
}
