//go:build verif

package main

import (
	"bufio"
	"fmt"
	"os"
	"os/exec"
	"strings"
)

// modelAnswers pipes the request lines to the Lean driver and returns one answer per line.
func modelAnswers(lines []string) ([]string, error) {
	if f := os.Getenv("VERIF_SAVE_LINES"); f != "" {
		os.WriteFile(f, []byte(strings.Join(lines, "\n")+"\n"), 0o644)
	}
	cmd := exec.Command(opts.Driver)
	cmd.Stdin = strings.NewReader(strings.Join(lines, "\n") + "\n")
	outp, err := cmd.StdoutPipe()
	if err != nil {
		return nil, err
	}
	if err := cmd.Start(); err != nil {
		return nil, err
	}
	var ans []string
	sc := bufio.NewScanner(outp)
	sc.Buffer(make([]byte, 1<<20), 1<<28)
	for sc.Scan() {
		ans = append(ans, sc.Text())
	}
	if err := cmd.Wait(); err != nil {
		return ans, err
	}
	if len(ans) != len(lines) {
		return ans, fmt.Errorf("driver answered %d lines for %d requests", len(ans), len(lines))
	}
	return ans, nil
}

// diffLines compares real answers with the model's and fills the result.
func diffLines(r *Result, lines, real []string) {
	ans, err := modelAnswers(lines)
	if err != nil {
		r.Mismatches = append(r.Mismatches, Mismatch{Op: "<driver>", Model: err.Error(), Real: ""})
		return
	}
	r.Cases += len(lines)
	for i := range lines {
		if ans[i] != real[i] {
			if len(r.Mismatches) < 20 {
				r.Mismatches = append(r.Mismatches, Mismatch{Op: lines[i], Model: ans[i], Real: real[i]})
			}
		}
	}
}

// guard runs f and maps a panic to a fault string.
func guard(f func() string) (res string) {
	defer func() {
		if e := recover(); e != nil {
			msg := fmt.Sprint(e)
			switch {
			case strings.Contains(msg, "index out of range"):
				res = "fault:index"
			case strings.Contains(msg, "slice bounds out of range"):
				res = "fault:slice"
			case strings.Contains(msg, "nil pointer"):
				res = "fault:nil"
			default:
				res = "fault:" + msg
			}
		}
	}()
	return f()
}
