//go:build verif

package main

func workerMain() {}
