//go:build verif

package main

import (
	"bufio"
	"encoding/hex"
	"encoding/json"
	"fmt"
	"io"
	"os"
	"os/exec"
	"runtime"
	"runtime/debug"
	"strings"
	"sync"
	"time"
)

// Isolation (DESIGN.md §2.4): every oracle that parses arbitrary bytes runs in worker
// processes.  A task is (oracle name, config string, input bytes); the worker evaluates the
// oracle's predicate on the real code under recover and a watchdog, so a panic, a hang or a
// memory blow-up is an observed outcome of that input, not a crashed check.

type Task struct {
	Oracle string
	Cfg    string
	Src    []byte
	Tag    string // generator tag (for the distribution in evidence)
}

// Outcome of one task as evaluated inside the worker.
type Outcome struct {
	Fails      []Failure      `json:"f,omitempty"`
	Nontrivial bool           `json:"n,omitempty"`
	Tags       []string       `json:"t,omitempty"` // counters to bump (branches / kinds hit)
	Key        string         `json:"k,omitempty"` // canonical hash key for distinctness ("" = hash of input+cfg)
	Reject     string         `json:"r,omitempty"` // generator rejection reason (not a failure)
	Data       map[string]any `json:"d,omitempty"` // oracle-specific payload for the parent
}

type oracleFn func(src []byte, cfg string) Outcome

var oracles = map[string]oracleFn{}

func deadlineFor(n int) time.Duration {
	// budget: generous constant + linear part; "time roughly proportional to the input length"
	return 3*time.Second + time.Duration(n)*40*time.Microsecond
}

// repoFrame finds the innermost php-parser frame of the goroutine that runs the oracle.
func repoFrameOf(stack string) string {
	for _, g := range strings.Split(stack, "\n\n") {
		if !strings.Contains(g, "main.runTask") {
			continue
		}
		return panicSite(g)
	}
	return panicSite(stack)
}

func runTask(fn oracleFn, src []byte, cfg string) (out Outcome) {
	defer func() {
		if e := recover(); e != nil {
			site := panicSite(string(debug.Stack()))
			out = Outcome{Fails: []Failure{{Site: "panic:" + site, Kind: "input", Detail: "panic outside parser.Parse guard: " + fmt.Sprint(e)}}}
		}
	}()
	return fn(src, cfg)
}

func workerMain() {
	in := bufio.NewReaderSize(os.Stdin, 1<<20)
	out := bufio.NewWriter(os.Stdout)
	defer out.Flush()
	var cur struct {
		sync.Mutex
		idx string
	}
	// memory watchdog
	go func() {
		var ms runtime.MemStats
		for {
			time.Sleep(100 * time.Millisecond)
			runtime.ReadMemStats(&ms)
			if ms.HeapAlloc > 3<<30 {
				cur.Lock()
				fmt.Fprintf(os.Stdout, "M %s\n", cur.idx)
				os.Exit(4)
			}
		}
	}()
	for {
		line, err := in.ReadString('\n')
		line = strings.TrimRight(line, "\n")
		if line != "" {
			parts := strings.SplitN(line, " ", 4)
			if len(parts) == 4 {
				idx, name, cfg := parts[0], parts[1], parts[2]
				src, _ := hex.DecodeString(parts[3])
				fn := oracles[name]
				cur.Lock()
				cur.idx = idx
				cur.Unlock()
				fmt.Fprintf(out, "S %s\n", idx)
				out.Flush()
				done := make(chan Outcome, 1)
				go func() { done <- runTask(fn, src, cfg) }()
				select {
				case o := <-done:
					b, _ := json.Marshal(o)
					fmt.Fprintf(out, "D %s %s\n", idx, b)
					out.Flush()
				case <-time.After(deadlineFor(len(src))):
					buf := make([]byte, 1<<20)
					n := runtime.Stack(buf, true)
					site := repoFrameOf(string(buf[:n]))
					fmt.Fprintf(out, "H %s %s\n", idx, site)
					out.Flush()
					os.Exit(3)
				}
			}
		}
		if err == io.EOF {
			return
		}
		if err != nil {
			return
		}
	}
}

type taskResult struct {
	Out  Outcome
	Kind string // done | hang | crash | oom
	Site string
}

// runTasks evaluates all tasks on nproc worker processes; results are indexed like tasks.
func runTasks(tasks []Task, nproc int) []taskResult {
	res := make([]taskResult, len(tasks))
	if len(tasks) == 0 {
		return res
	}
	if nproc < 1 {
		nproc = 1
	}
	var mu sync.Mutex
	next := 0
	take := func(k int) []int {
		mu.Lock()
		defer mu.Unlock()
		var ids []int
		for len(ids) < k && next < len(tasks) {
			ids = append(ids, next)
			next++
		}
		return ids
	}
	self, _ := os.Executable()
	var wg sync.WaitGroup
	for w := 0; w < nproc; w++ {
		wg.Add(1)
		go func() {
			defer wg.Done()
			for {
				ids := take(256)
				if len(ids) == 0 {
					return
				}
				pending := ids
				for len(pending) > 0 {
					pending = runBatch(self, tasks, pending, res)
				}
			}
		}()
	}
	wg.Wait()
	return res
}

// runBatch runs the given task indices in one worker process; returns the indices that remain
// (those after an input that killed the worker).
func runBatch(self string, tasks []Task, ids []int, res []taskResult) []int {
	cmd := exec.Command(self, "worker")
	cmd.Env = append(os.Environ(), "GOMEMLIMIT=3GiB")
	stdin, _ := cmd.StdinPipe()
	stdout, _ := cmd.StdoutPipe()
	cmd.Stderr = nil
	if err := cmd.Start(); err != nil {
		for _, i := range ids {
			res[i] = taskResult{Kind: "crash", Site: "worker-start:" + err.Error()}
		}
		return nil
	}
	go func() {
		w := bufio.NewWriter(stdin)
		for _, i := range ids {
			t := tasks[i]
			cfg := t.Cfg
			if cfg == "" {
				cfg = "-"
			}
			fmt.Fprintf(w, "%d %s %s %s\n", i, t.Oracle, cfg, hex.EncodeToString(t.Src))
		}
		w.Flush()
		stdin.Close()
	}()
	sc := bufio.NewScanner(stdout)
	sc.Buffer(make([]byte, 1<<20), 1<<28)
	pos := 0 // index into ids of the task currently running / next expected
	started := -1
	lines := make(chan string, 64)
	go func() {
		for sc.Scan() {
			lines <- sc.Text()
		}
		close(lines)
	}()
	kill := func() { cmd.Process.Kill(); cmd.Wait() }
	for {
		var to <-chan time.Time
		if started >= 0 {
			to = time.After(3*deadlineFor(len(tasks[started].Src)) + 5*time.Second)
		} else {
			to = time.After(60 * time.Second)
		}
		select {
		case l, ok := <-lines:
			if !ok {
				cmd.Wait()
				if started >= 0 {
					res[started] = taskResult{Kind: "crash", Site: "worker-died"}
					return ids[pos+1:]
				}
				if pos < len(ids) { // worker ended early without starting the next task
					return ids[pos:]
				}
				return nil
			}
			var idx int
			switch {
			case strings.HasPrefix(l, "S "):
				fmt.Sscanf(l, "S %d", &idx)
				started = idx
			case strings.HasPrefix(l, "D "):
				sp := strings.SplitN(l, " ", 3)
				fmt.Sscanf(sp[1], "%d", &idx)
				var o Outcome
				json.Unmarshal([]byte(sp[2]), &o)
				res[idx] = taskResult{Out: o, Kind: "done"}
				started = -1
				pos++
			case strings.HasPrefix(l, "H "):
				sp := strings.SplitN(l, " ", 3)
				fmt.Sscanf(sp[1], "%d", &idx)
				site := ""
				if len(sp) > 2 {
					site = sp[2]
				}
				res[idx] = taskResult{Kind: "hang", Site: site}
				kill()
				return ids[pos+1:]
			case strings.HasPrefix(l, "M "):
				fmt.Sscanf(l, "M %d", &idx)
				res[idx] = taskResult{Kind: "oom", Site: "memory>3GiB"}
				kill()
				return ids[pos+1:]
			}
		case <-to:
			kill()
			if started >= 0 {
				res[started] = taskResult{Kind: "hang", Site: "worker-silent"}
				return ids[pos+1:]
			}
			return ids[pos:]
		}
	}
}
