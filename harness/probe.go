//go:build verif

package main

import (
	"fmt"
	"os"
)

func init() { commands["probe"] = probeCmd }

// probe: debugging aid — parse -file under the versions given in -only, print errors, round trip, structure
func probeCmd() *Result {
	b, _ := os.ReadFile(opts.File)
	for _, v := range [][2]uint64{{5, 6}, {7, 4}} {
		po := parseSafe(b, ver(v[0], v[1]), true)
		fmt.Printf("== %d.%d panic=%q errs=%s\n", v[0], v[1], po.Panic, errsStr(po.Errs))
		if po.Root != nil {
			out, _ := printStr(po.Root)
			fmt.Printf("print: %q\nroundtrip: %v\nstruct: %s\n", out, out == string(b), structStr(po.Root))
		}
	}
	return &Result{}
}
