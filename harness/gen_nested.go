//go:build verif

package main

import (
	"fmt"
	"math/rand"
	"strings"
)

// nestedStmtSources: programs made of compound statements nested in one another — if chains mixing
// `elseif` and `else if`, braces, single statements and the alternative syntax, loops, switch, try — so
// that every compound kind occurs as a child of every other and in every slot of an if chain.
func nestedStmtSources(rng *rand.Rand, n int) [][]byte {
	var out [][]byte
	v := 0
	cond := func() string { v++; return fmt.Sprintf("$c%d", v) }
	simple := func() string { v++; return fmt.Sprintf("f%d();", v) }
	var stmt func(d int) string
	block := func(d int) string {
		var b strings.Builder
		b.WriteString("{ ")
		for k := rng.Intn(3); k >= 0; k-- {
			b.WriteString(stmt(d-1) + " ")
		}
		b.WriteString("}")
		return b.String()
	}
	body := func(d int) string {
		if rng.Intn(3) == 0 {
			return stmt(d - 1)
		}
		return block(d)
	}
	stmt = func(d int) string {
		if d <= 0 {
			return simple()
		}
		switch rng.Intn(9) {
		case 0, 1, 2:
			// if chain
			if rng.Intn(5) == 0 {
				s := "if (" + cond() + "): " + stmt(d-1)
				for k := rng.Intn(3); k > 0; k-- {
					s += " elseif (" + cond() + "): " + stmt(d-1)
				}
				if rng.Intn(2) == 0 {
					s += " else: " + stmt(d-1)
				}
				return s + " endif;"
			}
			s := "if (" + cond() + ") " + block(d)
			for k := rng.Intn(4); k > 0; k-- {
				if rng.Intn(2) == 0 {
					s += " elseif (" + cond() + ") " + block(d)
				} else {
					s += " else if (" + cond() + ") " + block(d)
				}
			}
			if rng.Intn(2) == 0 {
				s += " else " + block(d)
			}
			return s
		case 3:
			return "while (" + cond() + ") " + body(d)
		case 4:
			return "foreach ($a as $k => $x) " + body(d)
		case 5:
			return "for ($i = 0; " + cond() + "; $i++) " + body(d)
		case 6:
			s := "switch (" + cond() + ") { "
			for k := rng.Intn(3); k >= 0; k-- {
				s += "case " + fmt.Sprint(k) + ": " + stmt(d-1) + " "
			}
			if rng.Intn(2) == 0 {
				s += "default: " + stmt(d-1) + " "
			}
			return s + "}"
		case 7:
			s := "try " + block(d)
			for k := rng.Intn(2); k >= 0; k-- {
				s += " catch (E" + fmt.Sprint(k) + " | F $e) " + block(d)
			}
			if rng.Intn(2) == 0 {
				s += " finally " + block(d)
			}
			return s
		default:
			return "do " + body(d) + " while (" + cond() + ");"
		}
	}
	for i := 0; i < n; i++ {
		var b strings.Builder
		b.WriteString("<?php\n")
		for k := rng.Intn(3); k >= 0; k-- {
			b.WriteString(stmt(2+rng.Intn(2)) + "\n")
		}
		out = append(out, []byte(b.String()))
	}
	return out
}

// longChainSources: long flat runs of one construct — a left-nested operator chain of n operands, n elements of a
// list, n statements, n else-if links, n arguments — at lengths around powers of two and small buffer sizes
// (a walk that keeps a fixed-size stack or batch shows at such a boundary)
func longChainSources() [][]byte {
	var out [][]byte
	ops := []string{".", "+", "&&", "??", "|", "->f()", "[0]"}
	for _, n := range []int{15, 16, 17, 31, 32, 33, 34, 35, 63, 64, 65, 66, 100, 129, 257} {
		for _, op := range ops {
			var b strings.Builder
			b.WriteString("<?php $r = $v0")
			for i := 1; i < n; i++ {
				if op == "->f()" || op == "[0]" {
					b.WriteString(op)
				} else {
					fmt.Fprintf(&b, " %s $v%d", op, i)
				}
			}
			b.WriteString(";")
			out = append(out, []byte(b.String()))
		}
		var l, st, ei, ar strings.Builder
		l.WriteString("<?php $a = [")
		ar.WriteString("<?php f(")
		ei.WriteString("<?php if ($c0) { a0(); }")
		st.WriteString("<?php ")
		for i := 0; i < n; i++ {
			fmt.Fprintf(&l, "$v%d, ", i)
			fmt.Fprintf(&ar, "$v%d, ", i)
			fmt.Fprintf(&ei, " elseif ($c%d) { a%d(); }", i+1, i+1)
			fmt.Fprintf(&st, "$v%d = %d; ", i, i)
		}
		l.WriteString("1];")
		ar.WriteString("1);")
		ei.WriteString(" else { z(); }")
		out = append(out, []byte(l.String()), []byte(ar.String()), []byte(ei.String()), []byte(st.String()))
	}
	return out
}
