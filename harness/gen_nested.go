//go:build verif

package main

import (
	"fmt"
	"math/rand"
	"strings"
)

// nestedStmtSources: programs made of compound statements nested in one another — if chains mixing
// `elseif` and `else if`, braces, single statements and the alternative syntax, loops, switch, try — so
// that every compound kind occurs as a child of every other and in every slot of an if chain.
func nestedStmtSources(rng *rand.Rand, n int) [][]byte {
	var out [][]byte
	v := 0
	cond := func() string { v++; return fmt.Sprintf("$c%d", v) }
	simple := func() string { v++; return fmt.Sprintf("f%d();", v) }
	var stmt func(d int) string
	block := func(d int) string {
		var b strings.Builder
		b.WriteString("{ ")
		for k := rng.Intn(3); k >= 0; k-- {
			b.WriteString(stmt(d-1) + " ")
		}
		b.WriteString("}")
		return b.String()
	}
	body := func(d int) string {
		if rng.Intn(3) == 0 {
			return stmt(d - 1)
		}
		return block(d)
	}
	stmt = func(d int) string {
		if d <= 0 {
			return simple()
		}
		switch rng.Intn(9) {
		case 0, 1, 2:
			// if chain
			if rng.Intn(5) == 0 {
				s := "if (" + cond() + "): " + stmt(d-1)
				for k := rng.Intn(3); k > 0; k-- {
					s += " elseif (" + cond() + "): " + stmt(d-1)
				}
				if rng.Intn(2) == 0 {
					s += " else: " + stmt(d-1)
				}
				return s + " endif;"
			}
			s := "if (" + cond() + ") " + block(d)
			for k := rng.Intn(4); k > 0; k-- {
				if rng.Intn(2) == 0 {
					s += " elseif (" + cond() + ") " + block(d)
				} else {
					s += " else if (" + cond() + ") " + block(d)
				}
			}
			if rng.Intn(2) == 0 {
				s += " else " + block(d)
			}
			return s
		case 3:
			return "while (" + cond() + ") " + body(d)
		case 4:
			return "foreach ($a as $k => $x) " + body(d)
		case 5:
			return "for ($i = 0; " + cond() + "; $i++) " + body(d)
		case 6:
			s := "switch (" + cond() + ") { "
			for k := rng.Intn(3); k >= 0; k-- {
				s += "case " + fmt.Sprint(k) + ": " + stmt(d-1) + " "
			}
			if rng.Intn(2) == 0 {
				s += "default: " + stmt(d-1) + " "
			}
			return s + "}"
		case 7:
			s := "try " + block(d)
			for k := rng.Intn(2); k >= 0; k-- {
				s += " catch (E" + fmt.Sprint(k) + " | F $e) " + block(d)
			}
			if rng.Intn(2) == 0 {
				s += " finally " + block(d)
			}
			return s
		default:
			return "do " + body(d) + " while (" + cond() + ");"
		}
	}
	for i := 0; i < n; i++ {
		var b strings.Builder
		b.WriteString("<?php\n")
		for k := rng.Intn(3); k >= 0; k-- {
			b.WriteString(stmt(2+rng.Intn(2)) + "\n")
		}
		out = append(out, []byte(b.String()))
	}
	return out
}
