//go:build verif

package main

import (
	"encoding/json"
	"os"
	"path/filepath"
)

// regressionInputs: minimised past failures, run first (DESIGN.md §2.5 corpus).
func regressionInputs(pid string) [][]byte {
	var out [][]byte
	b, err := os.ReadFile(filepath.Join(opts.Verif, "corpus", "regress.json"))
	if err != nil {
		return nil
	}
	var m map[string][]string
	if json.Unmarshal(b, &m) != nil {
		return nil
	}
	for _, s := range m[pid] {
		out = append(out, []byte(s))
	}
	for _, s := range m["*"] {
		out = append(out, []byte(s))
	}
	return out
}
