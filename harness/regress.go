//go:build verif

package main

import (
	"encoding/hex"
	"encoding/json"
	"os"
	"path/filepath"
	"strconv"
	"strings"
)

// regressionInputs: minimised past failures, run first (DESIGN.md §2.5 corpus).
func regressionInputs(pid string) [][]byte {
	var out [][]byte
	b, err := os.ReadFile(filepath.Join(opts.Verif, "corpus", "regress.json"))
	if err != nil {
		return nil
	}
	var m map[string][]string
	if json.Unmarshal(b, &m) != nil {
		return nil
	}
	for _, s := range m[pid] {
		out = append(out, []byte(s))
	}
	for _, s := range m["*"] {
		out = append(out, []byte(s))
	}
	return append(hintSources(), out...)
}

// hintSources: when a correspondence run of this check found inputs on which model and code differ, the runner
// hands them over (-hints): the oracle evaluates the property itself on exactly those inputs first, so that a
// broken tie comes with a failing input whenever the mismatch is one.
func hintSources() [][]byte {
	if opts.Hints == "" {
		return nil
	}
	b, err := os.ReadFile(opts.Hints)
	if err != nil {
		return nil
	}
	var hs []struct {
		Cases []struct {
			Op string `json:"op"`
		} `json:"cases"`
	}
	if json.Unmarshal(b, &hs) != nil {
		return nil
	}
	var out [][]byte
	seen := map[string]bool{}
	for _, h := range hs {
		for _, c := range h.Cases {
			i := strings.IndexByte(c.Op, '"')
			if i < 0 {
				// ops that carry the source as hex: "roundtrip <family> <n> <hex>"
				f := strings.Fields(c.Op)
				if len(f) > 0 {
					if b, err := hex.DecodeString(f[len(f)-1]); err == nil && len(b) > 0 && !seen[string(b)] {
						seen[string(b)] = true
						out = append(out, b)
					}
				}
				continue
			}
			q, err := strconv.QuotedPrefix(c.Op[i:])
			if err != nil {
				continue
			}
			src, err := strconv.Unquote(q)
			if err != nil || seen[src] {
				continue
			}
			seen[src] = true
			out = append(out, []byte(src))
		}
	}
	return out
}
