//go:build verif

package main

import (
	"bytes"
	"fmt"
	"strings"
)

func init() {
	commands["oracle-C02"] = oracleC02
	oracles["C02"] = evalC02
}

func firstDiff(a, b []byte) int {
	n := len(a)
	if len(b) < n {
		n = len(b)
	}
	for i := 0; i < n; i++ {
		if a[i] != b[i] {
			return i
		}
	}
	return n
}

// evalC02: C02's statement on one input — if parsing reports no error, printing the tree
// yields exactly the source bytes.  Inputs with errors are generator rejections.
func evalC02(src []byte, cfg string) (o Outcome) {
	any := false
	for _, vs := range strings.Split(cfg, ",") {
		a, b := parseVer(vs)
		po := parseSafe(src, ver(a, b), true)
		if po.Panic != "" {
			o.Fails = append(o.Fails, Failure{Site: "panic:" + po.Site, Kind: "input", Config: vs, Detail: "panic: " + clip(po.Panic, 200)})
			continue
		}
		if len(po.Errs) > 0 || po.Root == nil {
			continue
		}
		any = true
		out, pan := printStr(po.Root)
		if pan != "" {
			o.Fails = append(o.Fails, Failure{Site: "print-panic", Kind: "input", Config: vs, Detail: pan})
			continue
		}
		if out != string(src) {
			i := firstDiff([]byte(out), src)
			lo := i - 12
			if lo < 0 {
				lo = 0
			}
			site := "roundtrip:" + classifyC02(src, []byte(out), i)
			o.Fails = append(o.Fails, Failure{Site: site, Kind: "input", Config: vs,
				Detail: fmt.Sprintf("print(parse(src)) != src at offset %d: src …%q printed …%q", i, clip(string(src[lo:]), 40), clip(out[lo:], 40))})
		}
	}
	if !any {
		o.Reject = "not-error-free"
		return
	}
	o.Nontrivial = bytes.Contains(src, []byte("<?"))
	return
}

// classifyC02 names the construct at the first difference (stable site for known findings).
func classifyC02(src, out []byte, i int) string {
	s := string(src)
	switch {
	case strings.Contains(s, "<<<") && emptyHeredocBefore(s, i):
		return "empty-heredoc-7.3"
	}
	return "other"
}

// emptyHeredocBefore: the difference is at the closing label of a heredoc with an empty body
func emptyHeredocBefore(s string, i int) bool {
	j := strings.LastIndex(s[:minInt(i+1, len(s))], "<<<")
	if j < 0 {
		return false
	}
	nl := strings.IndexAny(s[j:], "\r\n")
	if nl < 0 {
		return false
	}
	k := j + nl + 1
	if k < len(s) && s[k-1] == '\r' && s[k] == '\n' {
		k++
	}
	return i >= k-1 && i <= k+1
}

func minInt(a, b int) int {
	if a < b {
		return a
	}
	return b
}

func oracleC02() *Result {
	r := &Result{Rule: "real parse (versions 5.6 and 7.4; all six in thorough) then real printer; asserted only when zero errors were delivered: printed bytes == source bytes. Generators: corpus (repo test.php files, every PHP literal of the repo's tests), G-cfg sentences x G-trivia, trivia re-renderings of corpus snippets (LF/CRLF/CR, comments), long sources (> 2048 tokens), shebang / close-tag / halt-compiler / heredoc edge list, G-bytes exhaustive k=2 (k=3 thorough). Non-trivial = distinct error-free input containing an open tag"}
	rng := newRand("C02")
	versions := "5.6,7.4"
	k := 2
	if opts.Tier == "thorough" {
		versions = "5.0,5.6,7.0,7.2,7.3,7.4"
		k = 3
	}
	var tasks []Task
	add := func(b []byte, tag string) {
		tasks = append(tasks, Task{Oracle: "C02", Cfg: versions, Src: b, Tag: tag})
	}
	for _, c := range regressionInputs("C02") {
		add(c, "regression")
	}
	for _, e := range chainSources {
		add([]byte(e), "chains")
	}
	for _, e := range edgeSources {
		add([]byte(e), "edge")
	}
	corpus := loadCorpus()
	for _, s := range corpus {
		add(s.Src, "corpus")
		for _, v := range triviaVariants(s.Src, rng, 3) {
			add(v, "corpus-trivia")
		}
	}
	for _, s := range cfgSentences(rng) {
		add(s, "g-cfg")
	}
	for _, b := range genBytesExhaustive(k) {
		add(b, "g-bytes")
	}
	add(bytes.Repeat([]byte("<?php $a = [1, 2, 3]; /* c */ echo \"x $a[0] {$b->c}\";\n?>\n<b>html</b>\n"), 400), "long")
	runOracle(r, tasks)
	return r
}

// edge forms named in the property statement
var edgeSources = []string{
	"#!/bin/php\n<?php echo 1;", "#!/bin/php\r\n<?php echo 1;\n", "#!/usr/bin/env php\n<html><?= $a ?></html>",
	"<?php echo 1; ?>\r\nhtml", "<?php echo 1; ?>\rhtml", "<?php echo 1 ?>\nhtml<?php echo 2 ?>", "<?php echo 1 ; ?>\n<?= 2; ?><?= 3 ?>x",
	"<?php 1and 2;", "<?php 1or 2; 1xor 2; $a=1instanceof B;", "<?php echo 1?><?php echo 2?>", "a<?php ?>b<?php ?>c", "<?php ?>\n\n", "<? echo 1;", "<?PHP echo 1;", "<?=1?>",
	"<?php __halt_compiler();", "<?php __halt_compiler(); raw \x00 data ?> <?php", "<?php __halt_compiler ( ) ; tail", "<?php __HALT_COMPILER() ?>tail",
	"<?php echo <<<A\nA;\n", "<?php echo <<<ABC\nABC;\n", "<?php echo <<<A\n\nA;\n", "<?php echo <<<A\n  x\n  A;\n", "<?php echo <<<'A'\n$x {$y}\nA;\n", "<?php echo <<<\"A\"\n$x {$y} ${z} $a[0] $a->b\nA;\n",
	"<?php echo <<<A\r\nfoo\r\nA;\r\n", "<?php echo <<<A\n$$a\nA;\n", "<?php echo <<<A\n$\nA;\n", "<?php echo \"$a[0] $a[b] $a[$c] $a->b {$a['x']} ${a} ${a[1]} \\$x $\";",
	"<?php echo `ls $a {$b}`;", "<?php echo 'a\\'b' . \"c\\\"d\" . b'x' . B\"y\";", "<?php $a = (  int  ) $b; $c = (STRING)$d;", "<?php yield  \n from $x;", "<?php\r\n// c\r\n# d\r\n/* e */\r\n/** f */ echo 1;\r\n",
	"<?php // comment ?>\nhtml", "<?php # comment ?>html", "<?php // x\r", "<?php /* unterminated", "<?php $a->  list; $a::  class; $a  ->  b;", "<?php if ($a): ?>x<?php elseif ($b): ?>y<?php else: ?>z<?php endif ?>",
	"<?php\nnamespace A\\B;\nuse C\\{D, E as F, function g, const H};\nclass X extends Y implements Z { use T { a as protected b; c insteadof d; } const Q = 1; public static function f(?int ...$x): ?array {} }",
	"<?php fn($x) => $x + 1; $a ??= 1; [1, , 2]; [$a, [$b]] = $c; list(, $d) = $e; static fn&(int $x): int => 1;", "<?php switch($a) { case 1; case 2: break; default: }", "<?php switch($a): case 1: endswitch;",
	"<?php declare(ticks=1); declare(strict_types=1) { } declare(a=1): enddeclare;", "<?php goto a; a: echo 1;", "<?php try {} catch (A | B $e) {} finally {}", "<?php new class(1) extends A { };",
	"<?php\n$a = <<<A\n {$b->c[1]} \nA\n . 'x';", "<?php $s = \"{$a->b()->c}${d}$e[-1]\";", "<?php static $a, $b = 1; global $c, $$d, ${'e'};", "<?php unset($a, $b,); isset($a, $b); empty($a); eval('1'); exit; die(1); exit();",
	"<?php function &f(array &$a = [], callable $b = null, \\A\\B ...$c) { return; }", "<?php abstract class A { abstract protected function f(); final public static function g() {} var $x; public ?int $y = 1, $z; }",
	"<?php $a = $b ? $c : $d ?: $e; $f = $g ?? $h; $i = -$j ** 2; $k = !$l instanceof M; $n = (bool)$o . $p;", "<?php foreach ($a as $k => &$v): endforeach; for (;;): endfor; while (1): endwhile; do {} while (0);",
	"<?php $a = array(1 => 2, 'a' => &$b, ...$c); $d = [...$e]; f(...$g); $h = $i[1]{2};", "<?php A::B; A::$b; A::c(); $a::$b::$c; $a->b->c(); $a->{'b'}; $a->$b; $$a; ${'a'}; new $a->b; new A::$b;",
	"<?php include 'a'; include_once 'b'; require 'c'; require_once 'd'; print 1; clone $a; @$b; `c`; ++$d; $e--;",
	"<?php const A = 1, B = 2; use function a\\b; use const c\\d; namespace E { } namespace { } ", "<?php interface I extends J, K { const X = 1; function f(); } trait T { use U, V; }",
	"<?php\n/** doc */\nfunction f() {}\n/* c */ // d\n#e\n class A {}", "<?php echo 1, 2; echo(3); print(4); return 5;", "\xef\xbb\xbf<?php echo 1;", "<?php echo 0x1F + 0b11 + 017 + 1_000 + 1.5e3 + .5 + 6. + 9223372036854775808;",
}
