//go:build verif

package main

import (
	"math/rand"
	"strings"
)

// chainSentences: member-access / offset / call chains.  Both grammars build these by folding link lists
// (php5 with loops over lists in five productions, php7 by left recursion), so the combinations — a call
// on an element of a property, a property of a call result, an offset of a static member … — are
// where a link kind can be forgotten.  All sequences of up to three links over ten link forms on ten
// bases (sampled in the quick tier, complete in the thorough tier), in four statement contexts.
var chainBases = []string{"$a", "$this", "$a->b", "foo()", "A::b()", "A::$b", "(new Foo)", "$a[0]", "$$a", "A::B"}
var chainLinks = []string{"->c", "->d()", "[0]", "['k']", "()", "($x, 1)", "->{$e}", "->{$e}()", "{1}", "::f()", "::$g", "[$i][1]"}

func chainSentences(rng *rand.Rand) [][]byte {
	var chains []string
	var rec func(prefix string, depth int)
	rec = func(prefix string, depth int) {
		if depth > 0 {
			chains = append(chains, prefix)
		}
		if depth == 3 {
			return
		}
		for _, l := range chainLinks {
			rec(prefix+l, depth+1)
		}
	}
	for _, b := range chainBases {
		rec(b, 0)
	}
	keep := 900
	if opts.Tier == "thorough" {
		keep = len(chains)
	}
	if keep < len(chains) {
		// every chain of length <= 2 plus a sample of the longer ones
		var short, long []string
		for _, c := range chains {
			n := 0
			for _, l := range chainLinks {
				n += strings.Count(c, l)
			}
			if len(c) < 14 {
				short = append(short, c)
			} else {
				long = append(long, c)
			}
		}
		rng.Shuffle(len(long), func(i, j int) { long[i], long[j] = long[j], long[i] })
		if len(short) > keep {
			rng.Shuffle(len(short), func(i, j int) { short[i], short[j] = short[j], short[i] })
			short = short[:keep]
		}
		chains = append(short, long[:minInt(len(long), keep-len(short)+200)]...)
	}
	ctx := []string{"<?php %s;", "<?php %s = 1;", "<?php echo %s, 2;\n", "<?php\nf(%s)->z;"}
	var out [][]byte
	for i, c := range chains {
		out = append(out, []byte(strings.Replace(ctx[i%len(ctx)], "%s", c, 1)))
	}
	// `new` with a dynamic class reference (php5: dynamic_class_name_reference loops)
	for _, c := range []string{"$a", "$a->b", "$a->b->c", "$a->b[0]", "$a[0]->b", "A::$b", "A::$b->c", "$a->b[0]->c[1]", "static::$a", "$a::$b", "$a->b()"} {
		out = append(out, []byte("<?php new "+c+";"), []byte("<?php $o = new "+c+"($x);"), []byte("<?php (new "+c+")->m();"))
	}
	return out
}
