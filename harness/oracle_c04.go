//go:build verif

package main

import (
	"bytes"
	"fmt"
	"strings"

	"github.com/z7zmey/php-parser/pkg/ast"
	"github.com/z7zmey/php-parser/pkg/token"
)

func init() {
	commands["oracle-C04"] = oracleC04
	oracles["C04"] = evalC04
}

func isWs(b []byte) bool {
	for _, c := range b {
		if c != ' ' && c != '\t' && c != '\n' && c != '\r' && c != '\v' && c != '\f' {
			return false
		}
	}
	return true
}

// evalC04: every clause of C04's statement, checked on the tree the real parser returns.
func evalC04(src []byte, cfg string) (o Outcome) {
	starts := lineStartsOf(src)
	for _, vs := range strings.Split(cfg, ",") {
		a, b := parseVer(vs)
		po := parseSafe(src, ver(a, b), true)
		if po.Panic != "" {
			o.Fails = append(o.Fails, Failure{Site: "panic:" + po.Site, Kind: "input", Config: vs, Detail: clip(po.Panic, 200)})
			continue
		}
		if po.Root == nil {
			o.Tags = append(o.Tags, "nil-root")
			continue
		}
		fail := func(site, d string) {
			o.Fails = append(o.Fails, Failure{Site: site, Kind: "input", Config: vs, Detail: d})
		}
		sp, noPos := tokenSpans(po.Root)
		if noPos > 0 {
			fail("token-without-position", fmt.Sprintf("%d token(s) with text but no position", noPos))
		}
		prevEnd := 0
		gap := -1
		for _, s := range sp {
			t := s.t
			kind := "token"
			if s.ff {
				kind = "free-floating"
			}
			if s.s < 0 || s.e > len(src) || s.s > s.e {
				fail(kind+"-range", fmt.Sprintf("%s %d offsets %d..%d outside source of %d bytes", kind, int(t.ID), s.s, s.e, len(src)))
				continue
			}
			if !bytes.Equal(t.Value, src[s.s:s.e]) {
				fail(kind+"-value", fmt.Sprintf("%s id %d value %q but source[%d:%d] = %q", kind, int(t.ID), clip(string(t.Value), 40), s.s, s.e, clip(string(src[s.s:s.e]), 40)))
			}
			if s.e > s.s {
				if want := lineAt(starts, s.s); t.Position.StartLine != want {
					fail(kind+"-startline", fmt.Sprintf("%s id %d at %d..%d: StartLine %d, want %d", kind, int(t.ID), s.s, s.e, t.Position.StartLine, want))
				}
				if want := lineAt(starts, s.e-1); t.Position.EndLine != want {
					fail(kind+"-endline", fmt.Sprintf("%s id %d at %d..%d: EndLine %d, want %d", kind, int(t.ID), s.s, s.e, t.Position.EndLine, want))
				}
			}
			if s.s < prevEnd {
				fail("overlap", fmt.Sprintf("%s id %d at %d..%d overlaps the previous token ending at %d", kind, int(t.ID), s.s, s.e, prevEnd))
			} else if s.s > prevEnd && gap < 0 {
				gap = prevEnd
			}
			if s.e > prevEnd {
				prevEnd = s.e
			}
			if s.ff {
				switch t.ID {
				case token.T_WHITESPACE:
					if !isWs(t.Value) {
						fail("ff-class", fmt.Sprintf("T_WHITESPACE holds %q", clip(string(t.Value), 30)))
					}
				case token.T_COMMENT:
					if !(bytes.HasPrefix(t.Value, []byte("#")) || bytes.HasPrefix(t.Value, []byte("//")) || bytes.HasPrefix(t.Value, []byte("/*"))) || (bytes.HasPrefix(t.Value, []byte("/**")) && len(t.Value) > 4) {
						fail("ff-class", fmt.Sprintf("T_COMMENT holds %q", clip(string(t.Value), 30)))
					}
				case token.T_DOC_COMMENT:
					if !bytes.HasPrefix(t.Value, []byte("/**")) {
						fail("ff-class", fmt.Sprintf("T_DOC_COMMENT holds %q", clip(string(t.Value), 30)))
					}
				case token.T_OPEN_TAG, token.T_HALT_COMPILER:
				default:
					fail("ff-class", fmt.Sprintf("free-floating token of unexpected id %d %q", int(t.ID), clip(string(t.Value), 30)))
				}
			} else if isWs(t.Value) && len(t.Value) > 0 && t.ID != token.T_ENCAPSED_AND_WHITESPACE && t.ID != token.T_INLINE_HTML {
				fail("ws-as-token", fmt.Sprintf("significant token id %d consists of whitespace only", int(t.ID)))
			}
		}
		if len(po.Errs) == 0 {
			o.Tags = append(o.Tags, "error-free")
			if gap >= 0 || prevEnd != len(src) {
				if gap < 0 {
					gap = prevEnd
				}
				site := "gap"
				if strings.Contains(string(src), "<<<") && emptyHeredocBefore(string(src), gap) {
					site = "gap:empty-heredoc-7.3"
				}
				fail(site, fmt.Sprintf("error-free parse but tokens do not cover the source: first uncovered offset %d (…%q)", gap, clip(string(src[gap:]), 20)))
			}
			// trivia attached to the next significant token: ff spans are contiguous up to their owner
			for _, t := range allTokens(po.Root) {
				end := -1
				for _, ff := range t.FreeFloating {
					if ff.Position == nil {
						continue
					}
					if end >= 0 && ff.Position.StartPos != end {
						fail("ff-attach", fmt.Sprintf("free-floating tokens of token id %d not contiguous at %d", int(t.ID), ff.Position.StartPos))
					}
					end = ff.Position.EndPos
				}
				if end >= 0 && t.Position != nil && t.Position.StartPos != end {
					fail("ff-attach", fmt.Sprintf("free-floating text ending at %d is not followed directly by its token id %d at %d", end, int(t.ID), t.Position.StartPos))
				}
			}
			// leaf values
			walkTree(po.Root, func(n ast.Vertex, _ int) {
				var val []byte
				hasVal := false
				var cat []byte
				ntok := 0
				for _, f := range fieldsOf(n) {
					if f.Sort == 5 && f.Name == "Value" {
						hasVal = true
						val = f.Val.Bytes()
					}
					if f.Sort == 1 && !f.Val.IsNil() {
						cat = append(cat, f.Val.Interface().(*token.Token).Value...)
						ntok++
					}
				}
				if hasVal && ntok > 0 && !bytes.Equal(val, cat) {
					fail("leaf-value:"+kindName(n), fmt.Sprintf("%s.Value = %q but its token text is %q", kindName(n), clip(string(val), 40), clip(string(cat), 40)))
				}
			}, 0)
		} else {
			o.Tags = append(o.Tags, "with-errors")
		}
	}
	o.Nontrivial = len(src) > 0
	return
}

func oracleC04() *Result {
	r := &Result{Rule: "real parse; every token and free-floating token reachable from the tree (reflection walk): value = source[start:end], lines from an independent LF/CRLF/CR oracle, ordering and disjointness; error-free parses additionally: full coverage, trivia contiguous with its owner, trivia classification, leaf values. Generators as oracle-C02 plus erroneous inputs (mutations, random). Non-trivial = distinct non-empty input whose tree is non-nil"}
	rng := newRand("C04")
	versions := "5.6,7.4"
	k := 2
	if opts.Tier == "thorough" {
		versions = "5.0,5.6,7.0,7.2,7.3,7.4"
		k = 3
	}
	var tasks []Task
	add := func(b []byte, tag string) {
		tasks = append(tasks, Task{Oracle: "C04", Cfg: versions, Src: b, Tag: tag})
	}
	for _, c := range regressionInputs("C04") {
		add(c, "regression")
	}
	for _, e := range chainSources {
		add([]byte(e), "chains")
	}
	for _, e := range edgeSources {
		add([]byte(e), "edge")
		for _, v := range triviaVariants([]byte(e), rng, 3) {
			add(v, "edge-trivia")
		}
	}
	for _, s := range loadCorpus() {
		add(s.Src, "corpus")
		for _, v := range triviaVariants(s.Src, rng, 3) {
			add(v, "corpus-trivia")
		}
		if len(s.Src) < 3000 {
			for _, m := range mutations(s.Src, rng, 3) {
				add(m, "mutation")
			}
		}
	}
	for _, s := range cfgSentences(rng) {
		add(s, "g-cfg")
	}
	for _, b := range genBytesExhaustive(k) {
		add(b, "g-bytes")
	}
	for _, b := range genBytesRandom(rng, 2000, 60) {
		add(b, "random")
	}
	add(bytes.Repeat([]byte("<?php $a = [1, 2, 3];\r\n/* c */ echo \"x $a[0] {$b->c}\";\r?>\n<b>html</b>\n"), 400), "long")
	runOracle(r, tasks)
	return r
}
