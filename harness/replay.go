//go:build verif

package main

import (
	"encoding/hex"
	"encoding/json"
	"fmt"
	"os"
)

func init() { commands["replay"] = replayCmd }

// replay: re-executes a recorded failing input on the real code and prints the verdict.
func replayCmd() *Result {
	b, err := os.ReadFile(opts.File)
	if err != nil {
		fmt.Println("cannot read replay file:", err)
		os.Exit(2)
	}
	var rp struct {
		Property string `json:"property"`
		Kind     string `json:"kind"`
		Site     string `json:"site"`
		Payload  struct {
			Hex    string            `json:"hex"`
			Config string            `json:"config"`
			Input  string            `json:"input"`
			Detail string            `json:"detail"`
			Extra  map[string]string `json:"extra"`
		} `json:"payload"`
	}
	if err := json.Unmarshal(b, &rp); err != nil {
		fmt.Println("bad replay file:", err)
		os.Exit(2)
	}
	orc := rp.Payload.Extra["oracle"]
	if rp.Kind != "input" || orc == "" || oracles[orc] == nil {
		fmt.Printf("replay kind %q is re-executed by running the whole check of %s\n", rp.Kind, rp.Property)
		os.Exit(3)
	}
	src, _ := hex.DecodeString(rp.Payload.Hex)
	// the failing config may be a single version of the list the oracle ran
	r := &Result{}
	runOracle(r, []Task{{Oracle: orc, Cfg: oracleCfg(rp.Payload.Config), Src: src, Tag: "replay"}})
	fmt.Printf("replay of %s on %s (oracle %s, cfg %s)\n", rp.Site, rp.Payload.Input, orc, rp.Payload.Config)
	if len(r.Failures) == 0 {
		fmt.Println("REPLAY: property holds on this input now")
		os.Exit(0)
	}
	for _, f := range r.Failures {
		fmt.Printf("REPLAY: %s [%s] %s\n", f.Site, f.Config, f.Detail)
	}
	fmt.Printf("VIOLATION property=%s replay=%s\n", rp.Property, opts.File)
	os.Exit(1)
	return r
}

// oracleCfg: failures record "7.4/nil" or "7.4 tokens=…" style configs; the oracle wants its own cfg syntax.
func oracleCfg(c string) string {
	for i := 0; i < len(c); i++ {
		if c[i] == ' ' {
			return c[:i]
		}
	}
	for i := 0; i < len(c); i++ {
		if c[i] == '/' && (c[i+1:] == "cb" || c[i+1:] == "nil") {
			return c[:i]
		}
	}
	return c
}
