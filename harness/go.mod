module phpverif/harness

go 1.21

require github.com/z7zmey/php-parser v0.0.0

replace github.com/z7zmey/php-parser => /repo
