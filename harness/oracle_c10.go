//go:build verif

package main

import (
	"fmt"
	"reflect"
	"strings"

	"github.com/z7zmey/php-parser/pkg/ast"
	"github.com/z7zmey/php-parser/pkg/token"
)

const (
	tokObjectOperator = token.T_OBJECT_OPERATOR
	tokPaamayim       = token.T_PAAMAYIM_NEKUDOTAYIM
	tokVariable       = token.T_VARIABLE
	tokList           = token.T_LIST
)

func init() {
	commands["oracle-C10"] = oracleC10
	oracles["C10"] = evalC10
}

// constructs whose meaning differs between PHP 5 and PHP 7 (uniform variable syntax, PHP 7 migration
// guide: `$$a['b']`, `$a->$b['c']`, `$a->$b['c']()`, `A::$b['c']()`), and `list()` with no element
// (an error in PHP 7): an indirect variable / dynamic property / static property that is directly
// followed by an offset, a call or a further member access.  Decided on the real lexer's token ids.
func meaningDiffers(src []byte) string {
	toks, _, pan := lexAll(src, 7, 4)
	if pan != "" {
		return ""
	}
	id := func(i int) int {
		if i < 0 || i >= len(toks) {
			return -1
		}
		return int(toks[i].ID)
	}
	isFollow := func(i int) bool {
		switch id(i) {
		case '[', '{', '(', int(tokObjectOperator), int(tokPaamayim):
			return true
		}
		return false
	}
	// operand of a variable-variable `$`: T_VARIABLE, another `$…`, or `{ … }`; returns the index after it
	var afterOperand func(i int) int
	afterOperand = func(i int) int {
		switch {
		case id(i) == int(tokVariable):
			return i + 1
		case id(i) == '$':
			return afterOperand(i + 1)
		case id(i) == '{':
			d := 0
			for k := i; k < len(toks); k++ {
				if id(k) == '{' {
					d++
				} else if id(k) == '}' {
					d--
					if d == 0 {
						return k + 1
					}
				}
			}
		}
		return len(toks) + 1
	}
	for i := range toks {
		switch {
		case id(i) == '$' && isFollow(afterOperand(i+1)): // $$a['b'], ${'a'}->b …
			return "variable-variable-then-access"
		case id(i) == int(tokObjectOperator) && id(i+1) == int(tokVariable) && (id(i+2) == '[' || id(i+2) == '{'):
			return "dynamic-property-then-offset"
		case id(i) == int(tokPaamayim) && id(i+1) == int(tokVariable) && (id(i+2) == '[' || id(i+2) == '{'):
			// A::$b['c'](): changed meaning; plain A::$b[1] is only *nested* differently by this library's php5 grammar
			d := 0
			k := i + 2
			for ; k < len(toks); k++ {
				if id(k) == '[' || id(k) == '{' {
					d++
				} else if id(k) == ']' || id(k) == '}' {
					d--
					if d == 0 {
						break
					}
				}
			}
			if id(k+1) == '(' {
				return "static-property-offset-call"
			}
		case id(i) == int(tokList) && id(i+1) == '(' && id(i+2) == ')':
			return "empty-list"
		case id(i) == int(token.T_YIELD) || id(i) == int(token.T_YIELD_FROM):
			return "yield-precedence" // yield became a right-associative operator with its own precedence in PHP 7
		}
	}
	return ""
}

// assignRefOperand: the 7.4 tree holds `$a = & <expr>` whose right-hand side is an operator
// expression (php7.y: `variable '=' '&' expr`; PHP itself and php5.y: `variable '=' '&' variable`,
// so that `$a = &$b instanceof C` is `($a = &$b) instanceof C`).
func assignRefOperand(root ast.Vertex) bool {
	found := false
	walkTree(root, func(n ast.Vertex, _ int) {
		ar, ok := n.(*ast.ExprAssignReference)
		if !ok || isNilVertex(ar.Expr) {
			return
		}
		switch ar.Expr.(type) {
		case *ast.ExprVariable, *ast.ExprArrayDimFetch, *ast.ExprPropertyFetch, *ast.ExprStaticPropertyFetch,
			*ast.ExprFunctionCall, *ast.ExprMethodCall, *ast.ExprStaticCall, *ast.ExprNew:
		default:
			found = true
		}
	}, 0)
	return found
}

// unarySignOverBinary counts unary +/- nodes whose operand is a binary operation other than `**`, or a
// ternary: with the documented precedence (unary sign above every binary operator but `**`) such a node
// only arises from explicit parentheses, which this tree model does not keep as the direct operand
func unarySignOverBinary(root ast.Vertex) int {
	n := 0
	walkTree(root, func(v ast.Vertex, _ int) {
		var e ast.Vertex
		switch u := v.(type) {
		case *ast.ExprUnaryPlus:
			e = u.Expr
		case *ast.ExprUnaryMinus:
			e = u.Expr
		default:
			return
		}
		if isNilVertex(e) {
			return
		}
		name := reflect.TypeOf(e).Elem().Name()
		if (strings.HasPrefix(name, "ExprBinary") && name != "ExprBinaryPow") || name == "ExprTernary" {
			n++
		}
	}, 0)
	return n
}

// evalC10: parse under 5.6 and under 7.4; when both are error-free the full trees (kinds, nesting,
// values, tokens with free-floating text, positions) must be identical.
func evalC10(src []byte, cfg string) (o Outcome) {
	p5 := parseSafe(src, ver(5, 6), true)
	p7 := parseSafe(src, ver(7, 4), true)
	if p5.Panic != "" || p7.Panic != "" {
		o.Fails = append(o.Fails, Failure{Site: "panic:" + p5.Site + p7.Site, Kind: "input", Detail: clip(p5.Panic+p7.Panic, 200)})
		return
	}
	if p5.Root == nil || p7.Root == nil || len(p5.Errs) > 0 || len(p7.Errs) > 0 {
		o.Reject = "not-accepted-by-both"
		return
	}
	if why := meaningDiffers(src); why != "" {
		o.Reject = "meaning-differs:" + why
		return
	}
	a, b := fullStr(p5.Root, true), fullStr(p7.Root, true)
	if a != b {
		i := firstDiff([]byte(a), []byte(b))
		lo := maxInt(0, i-60)
		// name the innermost kind before the difference for a stable site
		k := a[:i]
		kind := "?"
		for j := len(k) - 1; j > 0; j-- {
			if k[j] == '{' || k[j] == '@' {
				e := j
				s := e
				for s > 0 && (k[s-1] >= 'a' && k[s-1] <= 'z' || k[s-1] >= 'A' && k[s-1] <= 'Z') {
					s--
				}
				if e > s && k[s] >= 'A' && k[s] <= 'Z' {
					kind = k[s:e]
					break
				}
			}
		}
		sa, sb := structStr(p5.Root), structStr(p7.Root)
		what := "tokens-or-positions"
		if sa != sb {
			what = "structure"
		}
		site := "differs:" + what + ":" + kind
		if what == "structure" && staticMemberDim(src) {
			site = "differs:php5-static-member-dim"
		} else if what == "structure" && assignRefOperand(p7.Root) {
			site = "differs:php7-assign-ref-operand"
		} else if what == "structure" && unarySignOverBinary(p5.Root) > unarySignOverBinary(p7.Root) {
			site = "differs:php5-static-scalar-unary-sign"
		}
		if what == "tokens-or-positions" {
			switch {
			case strings.Contains(string(src), "<<<") && strings.Contains(a[lo:], "CloseHeredocTkn"):
				site = "differs:empty-heredoc-7.3"
			case kind == "Identifier" && strings.Contains(a[maxInt(0, i-200):i], "Label:Identifier"):
				site = "differs:php5-goto-label"
			case kind == "ScalarEncapsedStringVar":
				site = "differs:" + what + ":" + kind
			}
		}
		o.Fails = append(o.Fails, Failure{Site: site, Kind: "input",
			Detail: fmt.Sprintf("5.6 and 7.4 give different trees (%s) at %d: 5.6 …%s 7.4 …%s", what, i, clip(a[lo:], 160), clip(b[lo:], 160))})
	}
	o.Nontrivial = true
	return
}

func oracleC10() *Result {
	r := &Result{Rule: "the same source parsed under 5.6 and 7.4 by the real parser; when both report no error and the source contains none of the constructs whose meaning differs between the languages (indirect variable / property / static access followed by an offset or call: uniform variable syntax), the full trees must be identical (reflection dump: kinds, nesting, values, tokens with free-floating text, positions). Sources: grammar-driven sentences of BOTH extracted grammars with per-production targeting, trivia variants, corpus, edge list, member-access chains. Non-trivial = distinct source accepted by both"}
	rng := newRand("C10")
	var tasks []Task
	add := func(b []byte, tag string) { tasks = append(tasks, Task{Oracle: "C10", Cfg: "-", Src: b, Tag: tag}) }
	for _, c := range regressionInputs("C10") {
		add(c, "regression")
	}
	for _, e := range edgeSources {
		add([]byte(e), "edge")
	}
	for _, e := range chainSources {
		add([]byte(e), "chains")
	}
	// literals at the edges of what both languages read the same way: offsets in simple interpolation (integer up
	// to MaxInt64, string beyond and for every other spelling), integer / float literal boundaries
	for _, of := range []string{"0", "7", "42", "9223372036854775806", "9223372036854775807", "9223372036854775808", "99999999999999999999", "0x1F", "0b11", "012", "00", "b", "foo_1"} {
		for _, form := range []string{"<?php \"$a[%s]\";", "<?php echo \"x $a[%s] y\";", "<?php echo <<<A\n$a[%s]\nA;\n", "<?php `$a[%s]`;", "<?php \"$a[%s]$b[%s]\";"} {
			add([]byte(strings.ReplaceAll(form, "%s", of)), "interpolation-offset")
		}
	}
	for _, lit := range []string{"9223372036854775807", "9223372036854775808", "0x7FFFFFFFFFFFFFFF", "0x8000000000000000", "0777777777777777777777", "01000000000000000000000",
		"0b111111111111111111111111111111111111111111111111111111111111111", "1e3", "1E-3", ".5", "6.", "1.5e+3", "00", "08", "0x", "1e", "1.e3"} {
		add([]byte("<?php $a = "+lit+"; f("+lit+", -"+lit+");"), "literal-boundary")
	}
	for _, s := range loadCorpus() {
		add(s.Src, "corpus")
	}
	for _, s := range cfgSentences(rng) {
		add(s, "g-cfg")
	}
	runOracle(r, tasks)
	return r
}

// member-access chains: PHP 5 folds them iteratively, PHP 7 left-recursively
var chainSources = []string{
	"<?php $a->b->c->d; $a->b()->c()->d(); $a->b[1]->c[2]; $a[1][2][3]; $a->b->c[1](); $a->b{1}; f()->g()->h; f()[1]; f()()?>",
	"<?php A::b()->c; A::b()::c(); A::$b->c; A::$b[1]; A::B[1]; (new A)->b; (new A)->b()->c[1]; new A(1, 2); new $a->b; new $a->b->c; new $a['x']; new A::$b;",
	"<?php $a->b = 1; $a->b->c = 2; $a->b[1] = 3; $a[1]->b = 4; $a::$b = 5; list($a->b, $c[1]) = $d; $a->b->c++; --$a->b[1]->c;",
	"<?php $x = &$a->b->c; $y = &$a[1][2]; $z = &A::$b; foreach ($a->b->c as $k => &$v) {} unset($a->b->c, $a[1]->b); isset($a->b->c[1]); empty($a->b()->c);",
	"<?php \"$a->b $a[1] {$a->b->c} {$a[1][2]} {$a->b()} ${a} ${a[1]}\"; `$a->b`; <<<A\n$a->b $a[1] {$a->b->c}\nA;\n",
	"<?php $a->b->c->d(1)->e[2]->f(3, 4)[5]->g; $this->a->b(); self::a()->b; static::$a->b; parent::a();",
	"<?php clone $a->b; print $a->b->c; @$a->b; (int)$a->b; -$a->b; !$a->b->c; $a->b instanceof C; $a->b ? $a->c : $a->d; $a->b ?: $a->c;",
}

// staticMemberDim: `X::$v[…]` / `X::$v{…}` occurs in the source
func staticMemberDim(src []byte) bool {
	toks, _, pan := lexAll(src, 7, 4)
	if pan != "" {
		return false
	}
	for i := 0; i+2 < len(toks); i++ {
		if toks[i].ID == tokPaamayim && toks[i+1].ID == tokVariable && (toks[i+2].ID == '[' || toks[i+2].ID == '{') {
			return true
		}
	}
	return false
}
