//go:build verif

package main

import (
	goprinter "go/printer"
	gotoken "go/token"
	"io"
	"sort"
)

func goprinterFprint(w io.Writer, n interface{}) { goprinter.Fprint(w, gotoken.NewFileSet(), n) }

func sortStrings(s []string) { sort.Strings(s) }

// sources exercising name resolution (C13 histories, C14)
var nsSources = []string{
	"<?php namespace N; use A\\B; use function f\\g as h; use const C\\D; class X extends B implements I, \\J { use T { a as b; T::c insteadof U; } public function m(B $x, ?self $y, int $z): ?B { return new B; } } function ff(B ...$b): \\Q {} h(); g(); D; E; namespace\\F::x(); $a instanceof B; try {} catch (B | \\C $e) {} B::$s; B::K; ",
	"<?php namespace A\\B { use X\\{Y, Z as W, function p, const Q}; new Y; new W; p(); Q; } namespace { new Y; p(); Q; }",
	"<?php use A\\B as C; $f = fn(C $x): C => new C; $g = function(C $x) use ($y): C {}; interface I extends C {} trait T {} const K = 1, L = 2; function &r() {} class P { public C $p; const M = 1; }",
	"<?php namespace N; use function A\\b; use const A\\c; B(); b(); C; c; true; FALSE; null; parent::f(); static::g(); self::H; new static; function f(array $a, callable $c, iterable $i, object $o, void $v, mixed $m) {}",
}
