//go:build verif

package main

import (
	"encoding/hex"
	"encoding/json"
	"fmt"
	"os"
	"path/filepath"
	"reflect"
	"regexp"
	"strconv"
	"strings"

	"github.com/z7zmey/php-parser/pkg/ast"
	"github.com/z7zmey/php-parser/pkg/conf"
	"github.com/z7zmey/php-parser/pkg/errors"
	"github.com/z7zmey/php-parser/pkg/position"
	"github.com/z7zmey/php-parser/pkg/token"
	"github.com/z7zmey/php-parser/pkg/verifbridge"
)

func init() { commands["diff-parser"] = diffParser }

// diff-parser (T-diff, M-YY + M-TERM): the whole-parser model of Model/Term.lean — goyacc driver over the
// regenerated LALR tables, every grammar action as a regenerated term, the position combinators from
// the regenerated table — against the real generated parsers.  Both sides get the same token stream
// (the real scanner's); compared are the return code, the number of semantic errors the actions
// report, and the whole tree: node kinds, every field in struct order, which token sits in which
// field (by its index in the stream), every position (four integers), every byte value, nil versus
// empty lists.

var kindCodes map[string]int

func loadKindCodes() {
	if kindCodes != nil {
		return
	}
	kindCodes = map[string]int{}
	b, err := os.ReadFile(filepath.Join(opts.Verif, ".cache", "facts.json"))
	if err != nil {
		return
	}
	var f struct {
		Kinds []struct {
			Name string `json:"name"`
		} `json:"kinds"`
	}
	if json.Unmarshal(b, &f) == nil {
		for i, k := range f.Kinds {
			kindCodes[k.Name] = i
		}
	}
}

type tokKey struct {
	id   token.ID
	s, e int
}

// streamTokens lexes src alone: every significant token in order, the end token last.
func streamTokens(src []byte, major, minor uint64) (toks []*token.Token, pan string) {
	defer func() {
		if e := recover(); e != nil {
			pan = fmt.Sprint(e)
		}
	}()
	lx := verifbridge.NewLexer(src, conf.Config{Version: ver(major, minor), ErrorHandlerFunc: func(e *errors.Error) {}})
	for i := 0; i < len(src)+16; i++ {
		t := lx.Lex()
		toks = append(toks, t)
		if t.ID <= 0 {
			return
		}
	}
	return nil, "lexer produced more tokens than input bytes"
}

var posT = reflect.TypeOf((*position.Position)(nil))
var tokT = reflect.TypeOf((*token.Token)(nil))
var toksT = reflect.TypeOf([]*token.Token(nil))
var vertT = reflect.TypeOf((*ast.Vertex)(nil)).Elem()
var vertsT = reflect.TypeOf([]ast.Vertex(nil))
var bytesT = reflect.TypeOf([]byte(nil))

type treeEnc struct {
	idx map[tokKey]int
	amb bool
	b   strings.Builder
}

func (te *treeEnc) tok(t *token.Token) {
	if t == nil {
		te.b.WriteString("_")
		return
	}
	k := tokKey{id: t.ID, s: -1, e: -1}
	if t.Position != nil {
		k.s, k.e = t.Position.StartPos, t.Position.EndPos
	}
	i, ok := te.idx[k]
	if !ok {
		te.b.WriteString("t?")
		return
	}
	fmt.Fprintf(&te.b, "t%d", i)
}

func (te *treeEnc) node(n ast.Vertex) {
	if n == nil || (reflect.ValueOf(n).Kind() == reflect.Ptr && reflect.ValueOf(n).IsNil()) {
		te.b.WriteString("_")
		return
	}
	v := reflect.ValueOf(n).Elem()
	code, ok := kindCodes[v.Type().Name()]
	if !ok {
		code = 9999
	}
	fmt.Fprintf(&te.b, "N%d(", code)
	for i := 0; i < v.NumField(); i++ {
		if i > 0 {
			te.b.WriteString(",")
		}
		f := v.Field(i)
		switch f.Type() {
		case posT:
			p := f.Interface().(*position.Position)
			if p == nil {
				te.b.WriteString("_")
			} else {
				fmt.Fprintf(&te.b, "p%d:%d:%d:%d", p.StartLine, p.EndLine, p.StartPos, p.EndPos)
			}
		case tokT:
			te.tok(f.Interface().(*token.Token))
		case toksT:
			if f.IsNil() {
				te.b.WriteString("_")
			} else {
				te.b.WriteString("[")
				for j, t := range f.Interface().([]*token.Token) {
					if j > 0 {
						te.b.WriteString(",")
					}
					te.tok(t)
				}
				te.b.WriteString("]")
			}
		case vertT:
			if f.IsNil() {
				te.b.WriteString("_")
			} else {
				te.node(f.Interface().(ast.Vertex))
			}
		case vertsT:
			if f.IsNil() {
				te.b.WriteString("_")
			} else {
				te.b.WriteString("[")
				for j, c := range f.Interface().([]ast.Vertex) {
					if j > 0 {
						te.b.WriteString(",")
					}
					te.node(c)
				}
				te.b.WriteString("]")
			}
		case bytesT:
			if f.IsNil() {
				te.b.WriteString("_")
			} else {
				te.b.WriteString("x" + hex.EncodeToString(f.Bytes()))
			}
		default:
			te.b.WriteString("?")
		}
	}
	te.b.WriteString(")")
}

var reModelBytes = regexp.MustCompile(`b([0-9a-f]*|-)\+(\d+)`)

func diffParser() *Result {
	r := &Result{Rule: "every input (repository corpus, grammar-driven sentences, the same with a token deleted / inserted / swapped or the text truncated, exhaustive short byte strings after mode prefixes) under 5.6 and 7.4, fed as the real scanner's token stream to the Lean whole-parser model: return code, number of semantic errors reported by actions, and the complete tree (kinds, fields, token placement by stream index, positions, byte values, nil vs empty lists) equal the real parser's. Inputs whose parse uses a production outside the translated fragment are counted as skipped"}
	loadKindCodes()
	srcs, tags := yyInputsThin(r, 4)
	var lines, real []string
	type meta struct {
		src  []byte
		fam  int
		toks []*token.Token
	}
	var metas []meta
	stat := map[string]int{}
	seen := map[string]bool{}
	for i, s := range srcs {
		for _, fam := range []int{7, 5} {
			var mj, mn uint64 = 7, 4
			if fam == 5 {
				mj, mn = 5, 6
			}
			toks, pan := streamTokens(s, mj, mn)
			if pan != "" || len(toks) == 0 {
				stat["skipped:lexer-panic"]++
				continue
			}
			te := &treeEnc{idx: map[tokKey]int{}}
			var ents []string
			for j, t := range toks {
				k := tokKey{id: t.ID, s: -1, e: -1}
				if t.Position != nil {
					k.s, k.e = t.Position.StartPos, t.Position.EndPos
				}
				if _, dup := te.idx[k]; dup {
					te.amb = true
				}
				te.idx[k] = j
				id := int(t.ID)
				if id < 0 {
					id = 0
				}
				if t.Position == nil {
					ents = append(ents, fmt.Sprintf("%d:-", id))
				} else if t.ID == token.T_NUM_STRING {
					h := hex.EncodeToString(t.Value)
					if h == "" {
						h = "-"
					}
					ents = append(ents, fmt.Sprintf("%d:%d:%d:%d:%d:%s", id, t.Position.StartLine, t.Position.EndLine, t.Position.StartPos, t.Position.EndPos, h))
				} else {
					ents = append(ents, fmt.Sprintf("%d:%d:%d:%d:%d", id, t.Position.StartLine, t.Position.EndLine, t.Position.StartPos, t.Position.EndPos))
				}
			}
			if te.amb {
				stat["skipped:ambiguous-token-positions"]++
				continue
			}
			key := strconv.Itoa(fam) + strings.Join(ents, ";")
			if seen[key] {
				continue
			}
			seen[key] = true
			// the real parser
			nsem := 0
			var root ast.Vertex
			var code int
			ppan := ""
			func() {
				defer func() {
					if e := recover(); e != nil {
						ppan = fmt.Sprint(e)
					}
				}()
				cfg := conf.Config{Version: ver(mj, mn), ErrorHandlerFunc: func(e *errors.Error) {
					if !strings.HasPrefix(e.Msg, "syntax error") && !strings.HasPrefix(e.Msg, "WARNING") {
						nsem++
					}
				}}
				lx := verifbridge.NewLexer(s, cfg)
				var p verifbridge.Parser
				if fam == 5 {
					p = verifbridge.NewPhp5Parser(lx, cfg)
				} else {
					p = verifbridge.NewPhp7Parser(lx, cfg)
				}
				code = p.Parse()
				root = p.GetRootNode()
			}()
			if ppan != "" {
				stat["skipped:parser-panic"]++
				continue
			}
			// the parser's own scanner instance produced the same tokens; the tree refers to them by position
			te.node(root)
			lines = append(lines, fmt.Sprintf("parse %d %s", fam, strings.Join(ents, ";")))
			real = append(real, fmt.Sprintf("%d %d %s", code, nsem, te.b.String()))
			metas = append(metas, meta{s, fam, toks})
			stat["tag:"+tags[i]]++
		}
	}
	ans, err := modelAnswers(lines)
	if err != nil {
		r.Mismatches = append(r.Mismatches, Mismatch{Op: "<driver>", Model: err.Error()})
		return r
	}
	for i := range lines {
		a := ans[i]
		if strings.HasPrefix(a, "fault:sem:") {
			stat["skipped:outside-translated-fragment"]++
			continue
		}
		// resolve the model's symbolic byte values with the stream's token values
		toks := metas[i].toks
		a = reModelBytes.ReplaceAllStringFunc(a, func(m string) string {
			sm := reModelBytes.FindStringSubmatch(m)
			j, _ := strconv.Atoi(sm[2])
			pre := ""
			if sm[1] != "-" {
				pre = sm[1]
			}
			if j < 0 || j >= len(toks) {
				return "x?"
			}
			return "x" + pre + hex.EncodeToString(toks[j].Value)
		})
		r.Cases++
		if a != real[i] {
			if len(r.Mismatches) < 20 {
				d := firstDiff([]byte(a), []byte(real[i]))
				lo := maxInt(0, d-60)
				r.Mismatches = append(r.Mismatches, Mismatch{Op: fmt.Sprintf("php%d %s (first difference at %d)", metas[i].fam, printable(metas[i].src), d),
					Model: clip(a[:minInt(len(a), 12)]+" …"+a[minInt(lo, len(a)):], 400), Real: clip(real[i][:minInt(len(real[i]), 12)]+" …"+real[i][minInt(lo, len(real[i])):], 400)})
			}
			stat["mismatch"]++
		} else {
			if strings.HasPrefix(a, "0 0 N") {
				stat["agree:accepted"]++
			} else {
				stat["agree:other"]++
			}
		}
	}
	for k, v := range stat {
		r.stat(k, v)
	}
	r.Evaluations = len(lines)
	r.DistinctNontrivial = r.Cases
	return r
}
