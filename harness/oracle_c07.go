//go:build verif

package main

import (
	"fmt"
	"reflect"
	"sort"
	"strings"

	"github.com/z7zmey/php-parser/pkg/ast"
	"github.com/z7zmey/php-parser/pkg/conf"
	"github.com/z7zmey/php-parser/pkg/errors"
	"github.com/z7zmey/php-parser/pkg/token"
	"github.com/z7zmey/php-parser/pkg/verifbridge"
)

func init() {
	commands["oracle-C07"] = oracleC07
	oracles["C07"] = evalC07
	oracles["C07r"] = evalC07recover
}

// expectedPrint: the tokens of the tree in offset order, each preceded by its free-floating text.
func expectedPrint(root ast.Vertex) (string, string) {
	type tk struct {
		s int
		t *token.Token
	}
	var ts []tk
	seen := map[*token.Token]bool{}
	dup := ""
	for _, t := range allTokens(root) {
		if seen[t] && dup == "" {
			dup = fmt.Sprintf("token id %d %q is stored twice in the tree", int(t.ID), clip(string(t.Value), 20))
		}
		seen[t] = true
		s := 1 << 30
		if t.Position != nil {
			s = t.Position.StartPos
		}
		ts = append(ts, tk{s, t})
	}
	sort.SliceStable(ts, func(i, j int) bool { return ts[i].s < ts[j].s })
	var b strings.Builder
	// every piece of text the tree carries (a token, a free-floating token) is a piece of the source and is
	// carried once: in offset order of the tokens the pieces' offsets strictly increase
	last := -1
	for _, x := range ts {
		for _, ff := range x.t.FreeFloating {
			b.Write(ff.Value)
			if ff.Position != nil && len(ff.Value) > 0 {
				if ff.Position.StartPos < last && dup == "" {
					dup = fmt.Sprintf("free-floating text %q (offsets %d-%d) is attached a second time or out of source order (token id %d at %d)", clip(string(ff.Value), 20), ff.Position.StartPos, ff.Position.EndPos, int(x.t.ID), x.s)
				}
				if ff.Position.EndPos > last {
					last = ff.Position.EndPos
				}
			}
		}
		b.Write(x.t.Value)
		if x.t.Position != nil && len(x.t.Value) > 0 {
			if x.t.Position.StartPos < last && dup == "" {
				dup = fmt.Sprintf("token id %d %q (offsets %d-%d) overlaps text already carried by the tree", int(x.t.ID), clip(string(x.t.Value), 20), x.t.Position.StartPos, x.t.Position.EndPos)
			}
			if x.t.Position.EndPos > last {
				last = x.t.Position.EndPos
			}
		}
	}
	return b.String(), dup
}

// evalC07: any input; when a tree is returned despite errors, printing it yields only tokens of the
// source, each at most once, in source order.
func evalC07(src []byte, cfg string) (o Outcome) {
	any := false
	for _, vs := range strings.Split(cfg, ",") {
		a, b := parseVer(vs)
		po := parseSafe(src, ver(a, b), true)
		if po.Panic != "" {
			o.Fails = append(o.Fails, Failure{Site: "panic:" + po.Site, Kind: "input", Config: vs, Detail: clip(po.Panic, 200)})
			continue
		}
		if po.Root == nil || len(po.Errs) == 0 {
			continue
		}
		any = true
		want, dup := expectedPrint(po.Root)
		if dup != "" {
			o.Fails = append(o.Fails, Failure{Site: "token-twice", Kind: "input", Config: vs, Detail: dup})
		}
		got, pan := printStr(po.Root)
		if pan != "" {
			o.Fails = append(o.Fails, Failure{Site: "print-panic", Kind: "input", Config: vs, Detail: pan})
			continue
		}
		if got != want && !onlySourceTokens(src, a, b, po.Root, got) {
			i := firstDiff([]byte(got), []byte(want))
			lo := maxInt(0, i-16)
			kind := classifyInvention(po.Root)
			o.Fails = append(o.Fails, Failure{Site: "recovered-print:" + kind, Kind: "input", Config: vs,
				Detail: fmt.Sprintf("printing the recovered tree does not give the tree's source tokens in source order (invented, duplicated or reordered text) at %d: printed …%q, tokens …%q", i, clip(got[lo:], 50), clip(want[lo:], 50))})
		}
		if sh := sharedNode(po.Root); sh != "" {
			o.Fails = append(o.Fails, Failure{Site: "shared-node:" + sh, Kind: "input", Config: vs, Detail: "node reachable along two paths in a recovered tree"})
		}
	}
	if !any {
		o.Reject = "no-recovered-tree"
		return
	}
	o.Nontrivial = true
	return
}

// srcPiece: a token or free-floating token of the source as the real scanner cuts it.
type srcPiece struct {
	S, E int
	Text string
}

func lexPieces(src []byte, major, minor uint64) (ps []srcPiece, ok bool) {
	defer func() {
		if e := recover(); e != nil {
			ok = false
		}
	}()
	lx := verifbridge.NewLexer(src, conf.Config{Version: ver(major, minor), ErrorHandlerFunc: func(e *errors.Error) {}})
	for i := 0; i < len(src)+16; i++ {
		t := lx.Lex()
		for _, f := range t.FreeFloating {
			if f.Position != nil {
				ps = append(ps, srcPiece{f.Position.StartPos, f.Position.EndPos, string(f.Value)})
			}
		}
		if t.ID <= 0 {
			return ps, true
		}
		if t.Position != nil {
			v := string(t.Value)
			// the scanner folds `;`, blanks and the close tag into one token; PHP's tokens are `;` and `?>`
			if k := strings.Index(v, "?>"); k > 0 && v[0] == ';' {
				ps = append(ps, srcPiece{t.Position.StartPos, t.Position.StartPos + 1, ";"})
				ps = append(ps, srcPiece{t.Position.StartPos + k, t.Position.EndPos, v[k:]})
			} else {
				ps = append(ps, srcPiece{t.Position.StartPos, t.Position.EndPos, v})
			}
		}
	}
	return ps, false
}

// onlySourceTokens decides the property as stated when the printed text is not simply the tree's
// tokens: the printed text must be the tree's tokens in source order with, between two of them,
// only text that matches — token by token, in order, each source token used at most once — source
// tokens lying between those two in the source (the printer's canonical lexeme standing where the
// dropped source token stood, e.g. `?>` between two inline-HTML nodes whose PHP block was dropped),
// or a single separating blank.
func onlySourceTokens(src []byte, major, minor uint64, root ast.Vertex, got string) bool {
	pieces, ok := lexPieces(src, major, minor)
	if !ok {
		return false
	}
	type tk struct {
		s, e int
		text string
	}
	var ts []tk
	for _, t := range allTokens(root) {
		if t.Position == nil {
			if len(t.Value) == 0 && len(t.FreeFloating) == 0 {
				continue
			}
			return false
		}
		s := t.Position.StartPos
		var b strings.Builder
		for _, ff := range t.FreeFloating {
			if ff.Position != nil && ff.Position.StartPos < s {
				s = ff.Position.StartPos
			}
			b.Write(ff.Value)
		}
		b.Write(t.Value)
		ts = append(ts, tk{s, t.Position.EndPos, b.String()})
	}
	sort.SliceStable(ts, func(i, j int) bool { return ts[i].s < ts[j].s })
	// insertion x standing between source offsets [lo, hi): match against the source pieces there
	next := 0 // index into pieces: each source token at most once, in order
	// the insertion must be a concatenation of whole source pieces of the gap, in order (pieces may be skipped:
	// dropped tokens); a piece that is a prefix of the insertion need not be the right one (`?` before `?>`):
	// backtrack over the choice
	var matchFrom func(x string, from, lo, hi int) (int, bool)
	matchFrom = func(x string, from, lo, hi int) (int, bool) {
		x = strings.TrimLeft(x, " ")
		if x == "" {
			return from, true
		}
		for k := from; k < len(pieces); k++ {
			p := pieces[k]
			if p.S < lo {
				continue
			}
			if p.E > hi {
				return from, false
			}
			pt := strings.TrimSpace(p.Text)
			if pt != "" && strings.HasPrefix(x, pt) {
				if n, ok := matchFrom(x[len(pt):], k+1, lo, hi); ok {
					return n, true
				}
			}
		}
		return from, false
	}
	matchGap := func(x string, lo, hi int) bool {
		n, ok := matchFrom(x, next, lo, hi)
		if ok {
			next = n
		}
		return ok
	}
	i, prevEnd := 0, 0
	for _, t := range ts {
		if t.text == "" {
			continue
		}
		j := strings.Index(got[i:], t.text)
		if j < 0 || j > 24 {
			return false
		}
		if j > 0 && !matchGap(got[i:i+j], prevEnd, t.s) {
			return false
		}
		i += j + len(t.text)
		prevEnd = t.e
	}
	if i < len(got) && !matchGap(got[i:], prevEnd, len(src)) {
		return false
	}
	return true
}

// classifyInvention names the first node kind that has a nil token field for which the printer has a default
func classifyInvention(root ast.Vertex) string {
	res := "other"
	walkTree(root, func(n ast.Vertex, _ int) {
		if res != "other" {
			return
		}
		for _, f := range fieldsOf(n) {
			if f.Sort == 1 && f.Val.IsNil() && (strings.HasSuffix(f.Name, "SemiColonTkn") || strings.HasPrefix(f.Name, "Open") || strings.HasPrefix(f.Name, "Close")) {
				res = kindName(n) + "." + f.Name
				return
			}
		}
	}, 0)
	return res
}

var validStmts = []string{
	"$a = 1;", "echo $b, 2;", "function f($x) { return $x; }", "if ($a) { $b = 2; } else { $c = 3; }", "class A { public $p = 1; function m() {} }", "foreach ($a as $k => $v) { echo $v; }",
	"while ($i < 3) $i++;", "$f = function($x) use ($y) { return $x + $y; };", "try { g(); } catch (E $e) { } finally { }", "switch ($a) { case 1: break; default: }", "return;", "$s = \"x $a[0] {$b->c}\";",
	"namespace\\f();", "static $q = [1, 2];", "do { } while (0);", "unset($a, $b);",
}

var brokenStmts = []string{"$a = ;", "foo(;", "echo 1 2;", "1 +;", "$x = (1;", "if ($a {", "$a->;", "function ( {}", "class { }", "= 3;", "$b = [1, ;", "else;", "return return;", ") ;", "new;", "$c::;", "}", "} }", "] ;", "} ;"}

// evalC07recover: cfg = "<version>/<k>/<mode>"; src = valid statements joined by \x00 then \x01 and the broken
// statement.  The statement list with the broken statement inserted after the first k statements is
// parsed; the statements before it must be what parsing them alone gives, and parsing must continue.
func evalC07recover(src []byte, cfg string) (o Outcome) {
	sp := strings.Split(cfg, "/")
	a, b := parseVer(sp[0])
	var k int
	fmt.Sscanf(sp[1], "%d", &k)
	mode := sp[2]
	parts := strings.SplitN(string(src), "\x01", 2)
	stmts := strings.Split(parts[0], "\x00")
	broken := parts[1]
	if strings.Contains(broken, "}") && mode != "top" {
		// a closing brace inside a block is not a malformed statement, it ends the block
		o.Reject = "closer-inside-block"
		return
	}
	wrap := func(body string) string {
		switch mode {
		case "block":
			return "<?php function w() {\n" + body + "}\n"
		case "brace":
			return "<?php {\n" + body + "}\n"
		}
		return "<?php\n" + body
	}
	before := strings.Join(stmts[:k], "\n") + "\n"
	after := strings.Join(stmts[k:], "\n") + "\n"
	full := wrap(before + broken + "\n" + after)
	clean := wrap(before + after)
	pre := "<?php\n" + before
	if mode == "block" {
		pre = "<?php function w() {\n" + before + "}"
	} else if mode == "brace" {
		pre = "<?php {\n" + before + "}"
	}
	pf := parseSafe([]byte(full), ver(a, b), true)
	pc := parseSafe([]byte(clean), ver(a, b), true)
	pp := parseSafe([]byte(pre), ver(a, b), true)
	if pc.Panic != "" || pc.Root == nil || len(pc.Errs) > 0 || pp.Root == nil || len(pp.Errs) > 0 {
		o.Reject = "clean-list-not-error-free"
		return
	}
	fail := func(site, d string) {
		o.Fails = append(o.Fails, Failure{Site: site, Kind: "input", Input: printable([]byte(full)), Hex: fmt.Sprintf("%x", []byte(full)), Config: sp[0], Detail: d})
	}
	if pf.Panic != "" {
		fail("panic:"+pf.Site, clip(pf.Panic, 200))
		return
	}
	if len(pf.Errs) == 0 {
		o.Reject = "broken-statement-accepted"
		return
	}
	if pf.Root == nil {
		o.Tags = append(o.Tags, "no-recovery")
		o.Nontrivial = true
		return
	}
	list := func(root ast.Vertex) []ast.Vertex {
		r, ok := root.(*ast.Root)
		if !ok {
			return nil
		}
		l := r.Stmts
		switch mode {
		case "block":
			if len(l) == 1 {
				if f, ok := l[0].(*ast.StmtFunction); ok {
					return f.Stmts
				}
			}
			return nil
		case "brace":
			if len(l) == 1 {
				if s, ok := l[0].(*ast.StmtStmtList); ok {
					return s.Stmts
				}
			}
			return nil
		}
		return l
	}
	lf, lp, lc := list(pf.Root), list(pp.Root), list(pc.Root)
	if lf == nil {
		// the enclosing construct itself did not survive: recovery happened at an outer level
		o.Tags = append(o.Tags, "recovered-at-outer-level")
		o.Nontrivial = true
		return
	}
	o.Tags = append(o.Tags, "recovered-in-list")
	if len(lp) != k {
		o.Reject = "prefix-count"
		return
	}
	if len(lf) < k {
		fail("prefix-lost:"+mode, fmt.Sprintf("%d well-formed statements precede the broken one, the recovered list has %d", k, len(lf)))
		return
	}
	for i := 0; i < k; i++ {
		if reflect.TypeOf(lf[i]) != reflect.TypeOf(lp[i]) || fullStr(lf[i], true) != fullStr(lp[i], true) {
			fail("prefix-differs:"+mode, fmt.Sprintf("statement #%d before the broken one differs from what parsing the prefix alone gives: %s vs %s", i, clip(fullStr(lf[i], true), 120), clip(fullStr(lp[i], true), 120)))
			return
		}
	}
	// parsing continues: when at least three statements follow, the last one is there
	if len(stmts)-k >= 3 && len(lc) > 0 {
		last := structStr(lc[len(lc)-1])
		if len(lf) == 0 || structStr(lf[len(lf)-1]) != last {
			fail("no-continuation:"+mode, fmt.Sprintf("three or more well-formed statements follow the broken one, the last of them is not the last statement of the recovered list (%d statements recovered, %d in the clean list)", len(lf), len(lc)))
		}
	}
	o.Nontrivial = true
	return
}

func oracleC07() *Result {
	r := &Result{Rule: "(1) any input for which the real parser returns a tree together with errors (corpus / G-cfg sentences with a token deleted, inserted or the text truncated; G-bytes): the printed text equals the tree's own tokens with their free-floating text in offset order — or, where the printer put a canonical lexeme between two of them, that lexeme matches, in order and at most once each, source tokens that lie between the two in the source (real scanner's tokens; `; ?>` counted as `;` and `?>`) —, no token object twice, no node shared. (2) valid statement lists (16 statement forms, random selections of 2..7) with one of 20 malformed statements (among them stray closing braces and brackets at top level) inserted at every boundary, at top level, in a function body and in a brace block: the statements before it equal (tokens, positions) the parse of the prefix alone and, when >= 3 statements follow, the last statement is recovered. Non-trivial = distinct input with a recovered tree"}
	rng := newRand("C07")
	versions := "5.6,7.4"
	var tasks []Task
	add := func(b []byte, tag string) {
		tasks = append(tasks, Task{Oracle: "C07", Cfg: versions, Src: b, Tag: tag})
	}
	for _, c := range regressionInputs("C07") {
		add(c, "regression")
	}
	nm := 6
	if opts.Tier == "thorough" {
		nm = 40
	}
	var srcs [][]byte
	for _, s := range loadCorpus() {
		if len(s.Src) < 3000 {
			srcs = append(srcs, s.Src)
		}
	}
	srcs = append(srcs, cfgSentences(rng)...)
	for _, s := range srcs {
		toks, _, pan := lexAll(s, 7, 4)
		if pan != "" || len(toks) < 2 {
			continue
		}
		for j := 0; j < nm; j++ {
			t := toks[rng.Intn(len(toks))]
			switch rng.Intn(3) {
			case 0:
				add(append(append([]byte(nil), s[:t.S]...), s[t.E:]...), "token-delete")
			case 1:
				u := toks[rng.Intn(len(toks))]
				add(append(append(append([]byte(nil), s[:t.S]...), s[u.S:u.E]...), s[t.S:]...), "token-insert")
			case 2:
				add(append([]byte(nil), s[:t.E]...), "truncate")
			}
		}
	}
	for _, b := range genBytesExhaustive(2) {
		add(b, "g-bytes")
	}
	// (2)
	nl := 60
	if opts.Tier == "thorough" {
		nl = 1200
	}
	for i := 0; i < nl; i++ {
		n := 2 + rng.Intn(6)
		var sel []string
		for j := 0; j < n; j++ {
			sel = append(sel, validStmts[rng.Intn(len(validStmts))])
		}
		br := brokenStmts[rng.Intn(len(brokenStmts))]
		for k := 0; k <= n; k++ {
			for _, mode := range []string{"top", "block", "brace"} {
				v := []string{"5.6", "7.4"}[rng.Intn(2)]
				tasks = append(tasks, Task{Oracle: "C07r", Cfg: fmt.Sprintf("%s/%d/%s", v, k, mode), Src: []byte(strings.Join(sel, "\x00") + "\x01" + br), Tag: "recover-" + mode})
			}
		}
	}
	runOracle(r, tasks)
	return r
}
