//go:build verif

package main

import (
	"fmt"
	"math/rand"
	"reflect"

	"github.com/z7zmey/php-parser/pkg/ast"
	"github.com/z7zmey/php-parser/pkg/position"
	"github.com/z7zmey/php-parser/pkg/token"
)

// G-tree (DESIGN.md §2.5): synthetic nodes of every kind with a unique marker in every slot.
// Markers are byte strings "\x01<n>\x02" that no printer default and no Go syntax contains.

type marker struct {
	ID    int
	Field string // Kind.Field[/i]
	Tok   *token.Token
	Node  ast.Vertex
}

type gtree struct {
	Root    ast.Vertex
	Kind    string
	Desc    string
	Markers []marker // in struct declaration order, separated lists interleaved item/separator
	next    int
}

func markerBytes(n int) []byte { return []byte(fmt.Sprintf("\x01%d\x02", n)) }

func (g *gtree) newTok(field string, withFF bool) *token.Token {
	g.next++
	id := g.next
	t := &token.Token{ID: token.T_STRING, Value: markerBytes(id)}
	if withFF {
		g.next++
		ffid := g.next
		t.FreeFloating = []*token.Token{{ID: token.T_WHITESPACE, Value: markerBytes(ffid)}}
		g.Markers = append(g.Markers, marker{ID: ffid, Field: field + ".ff", Tok: t.FreeFloating[0]})
	}
	g.Markers = append(g.Markers, marker{ID: id, Field: field, Tok: t})
	return t
}

// marker child: an Identifier without token whose Value is the marker (the printer prints the
// node's own value as default).
func (g *gtree) newLeaf(field string) ast.Vertex {
	g.next++
	n := &ast.Identifier{Value: markerBytes(g.next)}
	g.Markers = append(g.Markers, marker{ID: g.next, Field: field, Node: n})
	return n
}

// buildNode fills the fields of a fresh node of the given kind. present(i) tells whether field i
// (declaration index) is filled; listLen is the length of list fields; stmtList: single child
// fields named Stmt hold a StmtStmtList (to reach the printer's alt-syntax block).
func buildNode(proto ast.Vertex, present func(i int) bool, listLen int, stmtList bool, withFF bool, withPos bool) *gtree {
	rt := reflect.TypeOf(proto).Elem()
	rv := reflect.New(rt)
	g := &gtree{Root: rv.Interface().(ast.Vertex), Kind: rt.Name()}
	ev := rv.Elem()
	// pair separated lists: a []Vertex field directly followed by a []*Token field is printed interleaved
	for i := 0; i < rt.NumField(); i++ {
		f := rt.Field(i)
		name := rt.Name() + "." + f.Name
		if !present(i) {
			continue
		}
		switch f.Type {
		case tPos:
			if withPos {
				ev.Field(i).Set(reflect.ValueOf(&position.Position{StartLine: 1 + i, EndLine: 2 + i, StartPos: 10 * i, EndPos: 10*i + 5}))
			}
		case tTok:
			ev.Field(i).Set(reflect.ValueOf(g.newTok(name, withFF)))
		case tToks:
			// handled together with the preceding list when it is a separator list
			if i > 0 && rt.Field(i-1).Type == tVertices {
				continue // separators exist only between items of the list they belong to
			}
			var l []*token.Token
			for j := 0; j < listLen; j++ {
				l = append(l, g.newTok(fmt.Sprintf("%s/%d", name, j), withFF))
			}
			ev.Field(i).Set(reflect.ValueOf(l))
		case tVertex:
			if stmtList && f.Name == "Stmt" {
				sl := &ast.StmtStmtList{}
				sl.OpenCurlyBracketTkn = g.newTok(name+">StmtStmtList.OpenCurlyBracketTkn", withFF)
				sl.Stmts = []ast.Vertex{g.newLeaf(name + ">StmtStmtList.Stmts/0")}
				sl.CloseCurlyBracketTkn = g.newTok(name+">StmtStmtList.CloseCurlyBracketTkn", withFF)
				ev.Field(i).Set(reflect.ValueOf(sl))
			} else {
				ev.Field(i).Set(reflect.ValueOf(g.newLeaf(name)))
			}
		case tVertices:
			sepNext := i+1 < rt.NumField() && rt.Field(i+1).Type == tToks && present(i+1)
			l := make([]ast.Vertex, 0, listLen)
			var seps []*token.Token
			for j := 0; j < listLen; j++ {
				l = append(l, g.newLeaf(fmt.Sprintf("%s/%d", name, j)))
				if sepNext && j < listLen-1 {
					seps = append(seps, g.newTok(fmt.Sprintf("%s/%d", rt.Name()+"."+rt.Field(i+1).Name, j), withFF))
				}
			}
			ev.Field(i).Set(reflect.ValueOf(l))
			if sepNext {
				if seps == nil {
					seps = []*token.Token{}
				}
				ev.Field(i + 1).Set(reflect.ValueOf(seps))
			}
		case tBytes:
			g.next++
			ev.Field(i).Set(reflect.ValueOf(markerBytes(g.next)))
			// the node's own value is what the printer falls back to when the token before it is absent
			if i > 0 && rt.Field(i-1).Type == tTok && !present(i-1) {
				g.Markers = append(g.Markers, marker{ID: g.next, Field: name})
			}
		}
	}
	return g
}

// gtreeCases enumerates instances per kind: all present; each single field absent; each single
// field alone; lists of length 0/1/3; alt-syntax variants; random masks (thorough: more).
func gtreeCases(rng *rand.Rand, thorough bool) []*gtree {
	var out []*gtree
	for _, proto := range allKinds {
		rt := reflect.TypeOf(proto).Elem()
		n := rt.NumField()
		all := func(int) bool { return true }
		add := func(desc string, g *gtree) { g.Desc = desc; out = append(out, g) }
		for _, ll := range []int{0, 1, 3} {
			add(fmt.Sprintf("all,len=%d", ll), buildNode(proto, all, ll, false, false, true))
		}
		add("all,ff", buildNode(proto, all, 2, false, true, true))
		add("all,stmtlist", buildNode(proto, all, 2, true, false, false))
		add("all,stmtlist,ff", buildNode(proto, all, 2, true, true, true))
		for i := 1; i < n; i++ {
			i := i
			add(fmt.Sprintf("without:%s", rt.Field(i).Name), buildNode(proto, func(j int) bool { return j != i }, 2, false, false, true))
			add(fmt.Sprintf("only:%s", rt.Field(i).Name), buildNode(proto, func(j int) bool { return j == i }, 2, false, false, false))
			add(fmt.Sprintf("stmtlist,without:%s", rt.Field(i).Name), buildNode(proto, func(j int) bool { return j != i }, 1, true, false, false))
		}
		nr := 6
		if thorough {
			nr = 200
		}
		for r := 0; r < nr; r++ {
			mask := rng.Uint64()
			add(fmt.Sprintf("mask:%x", mask&(1<<uint(n)-1)), buildNode(proto, func(j int) bool { return mask&(1<<uint(j)) != 0 }, 1+rng.Intn(3), rng.Intn(2) == 0, rng.Intn(2) == 0, rng.Intn(2) == 0))
		}
	}
	return out
}
