//go:build verif

package main

import (
	"fmt"
	"math/rand"
	"unsafe"

	"github.com/z7zmey/php-parser/pkg/position"
	"github.com/z7zmey/php-parser/pkg/token"
)

func init() {
	commands["diff-pool"] = diffPool
}

// poolMirror has the memory layout of token.Pool / position.Pool (block slice header, off);
// the harness reads the current block's base address through it to name a returned pointer
// as (ordinal of the block allocation, index in the block).
type poolMirror struct {
	base unsafe.Pointer
	len  int
	cap  int
	off  int
}

type cellNamer struct {
	blocks []unsafe.Pointer
}

func (c *cellNamer) tag(pool, ptr unsafe.Pointer, size uintptr) string {
	m := (*poolMirror)(pool)
	ord := -1
	for i, b := range c.blocks {
		if b == m.base {
			ord = i
		}
	}
	if ord < 0 {
		c.blocks = append(c.blocks, m.base)
		ord = len(c.blocks) - 1
	}
	off := uintptr(ptr) - uintptr(m.base)
	if size == 0 || off%size != 0 || int(off/size) >= m.len {
		return fmt.Sprintf("%d:?;", ord)
	}
	return fmt.Sprintf("%d:%d;", ord, off/size)
}

// poolTrace runs n Gets on a real pool and canonicalises the returned pointers:
// "nil", "n" = first cell of a block not adjacent to the previous result, "a" = the cell
// directly after the previous result, "?" = anything else. It also checks
// distinctness and write/read-back independence on the real objects.
func tokenPoolTrace(bs, n int) (string, string) {
	p := token.NewPool(bs)
	cells := &cellNamer{}
	var ptrs []*token.Token
	tr := ""
	for i := 0; i < n; i++ {
		t := p.Get()
		if t == nil {
			tr += "nil"
			ptrs = append(ptrs, nil)
			continue
		}
		ptrs = append(ptrs, t)
		tr += cells.tag(unsafe.Pointer(p), unsafe.Pointer(t), unsafe.Sizeof(*t))
	}
	// independence on the real objects
	problem := ""
	seen := map[*token.Token]int{}
	for i, t := range ptrs {
		if t == nil {
			continue
		}
		if j, dup := seen[t]; dup {
			problem = fmt.Sprintf("results %d and %d are the same object", j, i)
		}
		seen[t] = i
		t.ID = token.ID(i + 1)
		t.Value = []byte{byte(i), byte(i >> 8)}
	}
	for i, t := range ptrs {
		if t == nil {
			continue
		}
		if int(t.ID) != i+1 || len(t.Value) != 2 || t.Value[0] != byte(i) || t.Value[1] != byte(i>>8) {
			problem = fmt.Sprintf("value written through result %d was overwritten (ID=%d)", i, t.ID)
			break
		}
	}
	return tr, problem
}

func positionPoolTrace(bs, n int) (string, string) {
	p := position.NewPool(bs)
	cells := &cellNamer{}
	var ptrs []*position.Position
	tr := ""
	for i := 0; i < n; i++ {
		t := p.Get()
		if t == nil {
			tr += "nil"
			ptrs = append(ptrs, nil)
			continue
		}
		ptrs = append(ptrs, t)
		tr += cells.tag(unsafe.Pointer(p), unsafe.Pointer(t), unsafe.Sizeof(*t))
	}
	problem := ""
	seen := map[*position.Position]int{}
	for i, t := range ptrs {
		if t == nil {
			continue
		}
		if j, dup := seen[t]; dup {
			problem = fmt.Sprintf("results %d and %d are the same object", j, i)
		}
		seen[t] = i
		t.StartPos = i + 1
		t.EndPos = -i
	}
	for i, t := range ptrs {
		if t == nil {
			continue
		}
		if t.StartPos != i+1 || t.EndPos != -i {
			problem = fmt.Sprintf("value written through result %d was overwritten", i)
			break
		}
	}
	return tr, problem
}

func diffPool() *Result {
	r := &Result{Rule: "histories (blockSize, n): exhaustive blockSize 0..9 x n 0..40, plus random blockSize<=2100, n<=3*blockSize+5; both pools; non-trivial = n crosses at least one block boundary"}
	rng := rand.New(rand.NewSource(opts.Seed))
	type hist struct{ bs, n int }
	var hs []hist
	for bs := 0; bs <= 9; bs++ {
		for n := 0; n <= 40; n++ {
			hs = append(hs, hist{bs, n})
		}
	}
	extra := 60
	if opts.Tier == "thorough" {
		extra = 600
	}
	for i := 0; i < extra; i++ {
		bs := 1 + rng.Intn(2100)
		if i%3 == 0 {
			bs = 1 + rng.Intn(40)
		}
		hs = append(hs, hist{bs, rng.Intn(3*bs + 5)})
	}
	hs = append(hs, hist{1024, 1025}, hist{1024, 2049}, hist{1024, 3100})
	var lines, real []string
	nontrivial := map[hist]bool{}
	for _, h := range hs {
		for _, which := range []string{"token", "position"} {
			var tr, prob string
			if which == "token" {
				tr, prob = tokenPoolTrace(h.bs, h.n)
			} else {
				tr, prob = positionPoolTrace(h.bs, h.n)
			}
			lines = append(lines, fmt.Sprintf("pool %d %d", h.bs, h.n))
			real = append(real, tr)
			r.Evaluations++
			if prob != "" {
				r.fail(Failure{Site: "pkg/" + which + "/pool.go:Get", Kind: "history", Input: fmt.Sprintf("blockSize=%d n=%d", h.bs, h.n), Detail: prob})
			}
		}
		if h.bs > 0 && h.n > h.bs {
			nontrivial[h] = true
		}
	}
	diffLines(r, lines, real)
	for i, m := range r.Mismatches {
		_ = i
		r.fail(Failure{Site: "pool:model-vs-code", Kind: "history", Input: m.Op, Detail: "allocation pattern differs: model " + m.Model + " real " + m.Real})
	}
	r.DistinctNontrivial = len(nontrivial)
	r.sample(map[string]interface{}{"op": lines[len(lines)-1], "real": real[len(real)-1][:40] + "…"})
	r.sample(map[string]interface{}{"op": lines[50], "real": real[50]})
	return r
}
