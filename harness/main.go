//go:build verif

// harness: correspondence runs (diff-*), oracles on the real code (oracle-*), replay.
package main

import (
	"encoding/json"
	"flag"
	"fmt"
	"os"
	"sort"
)

type Failure struct {
	Site   string      `json:"site"`             // stable identifier of what fails (call site / production / kind+field)
	Kind   string      `json:"kind"`             // input | tree | history | glue-state
	Input  string      `json:"input,omitempty"`  // printable form
	Hex    string      `json:"hex,omitempty"`    // exact bytes
	Config string      `json:"config,omitempty"` // version, callback, options
	Detail string      `json:"detail"`
	Extra  interface{} `json:"extra,omitempty"`
}

type Mismatch struct {
	Op    string `json:"op"`
	Model string `json:"model"`
	Real  string `json:"real"`
}

type Result struct {
	Evaluations        int                    `json:"evaluations"`
	DistinctNontrivial int                    `json:"distinct_nontrivial"`
	Rule               string                 `json:"rule"`
	Samples            []interface{}          `json:"samples"`
	Failures           []Failure              `json:"failures"`
	Stats              map[string]interface{} `json:"stats"`
	Cases              int                    `json:"cases"`
	Mismatches         []Mismatch             `json:"mismatches"`
}

type Opts struct {
	Tier   string
	Seed   int64
	Out    string
	Verif  string
	Repo   string
	Driver string
	Hints  string
	File   string
	Only   string
}

var opts Opts

func (r *Result) stat(k string, v interface{}) {
	if r.Stats == nil {
		r.Stats = map[string]interface{}{}
	}
	r.Stats[k] = v
}

func (r *Result) inc(k string) {
	if r.Stats == nil {
		r.Stats = map[string]interface{}{}
	}
	n, _ := r.Stats[k].(int)
	r.Stats[k] = n + 1
}

func (r *Result) fail(f Failure) {
	// keep at most 5 failures per site
	n := 0
	for _, g := range r.Failures {
		if g.Site == f.Site {
			n++
		}
	}
	if n < 5 {
		r.Failures = append(r.Failures, f)
	}
}

func (r *Result) sample(s interface{}) {
	if len(r.Samples) < 8 {
		r.Samples = append(r.Samples, s)
	}
}

func writeResult(r *Result) {
	sort.SliceStable(r.Failures, func(i, j int) bool { return r.Failures[i].Site < r.Failures[j].Site })
	b, _ := json.MarshalIndent(r, "", " ")
	if opts.Out != "" {
		if err := os.WriteFile(opts.Out, b, 0o644); err != nil {
			fmt.Fprintln(os.Stderr, err)
			os.Exit(3)
		}
	} else {
		os.Stdout.Write(b)
	}
}

var commands = map[string]func() *Result{}

func main() {
	if len(os.Args) < 2 {
		fmt.Fprintln(os.Stderr, "usage: harness <subcommand> [flags]")
		os.Exit(2)
	}
	sub := os.Args[1]
	fs := flag.NewFlagSet(sub, flag.ExitOnError)
	fs.StringVar(&opts.Tier, "tier", "quick", "")
	fs.Int64Var(&opts.Seed, "seed", 1, "")
	fs.StringVar(&opts.Out, "out", "", "")
	fs.StringVar(&opts.Verif, "verif", "/verif", "")
	fs.StringVar(&opts.Repo, "repo", "/repo", "")
	fs.StringVar(&opts.Driver, "driver", "", "")
	fs.StringVar(&opts.Hints, "hints", "", "")
	fs.StringVar(&opts.File, "file", "", "")
	fs.StringVar(&opts.Only, "only", "", "restrict to one generator tag (debugging)")
	fs.Parse(os.Args[2:])
	if sub == "worker" {
		workerMain()
		return
	}
	fn, ok := commands[sub]
	if !ok {
		fmt.Fprintln(os.Stderr, "unknown subcommand", sub)
		os.Exit(2)
	}
	r := fn()
	writeResult(r)
}
