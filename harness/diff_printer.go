//go:build verif

package main

import (
	"encoding/hex"
	"fmt"
	"math/rand"
	"reflect"
	"strconv"
	"strings"

	"github.com/z7zmey/php-parser/pkg/ast"
	"github.com/z7zmey/php-parser/pkg/token"
)

func init() {
	commands["diff-printer"] = diffPrinter
}

// diff-printer (T-diff of M-PRINT + M-RENDER): the Lean printer model — `chunks` over the
// regenerated printer table followed by `render` (the byte-level write/writeToken state) — is
// run on an encoding of a tree, the real printer on the tree itself; the outputs must be
// byte-identical.  Trees: G-tree instances of every kind, parsed corpus trees, and the same
// parsed trees with tokens removed at random (printer defaults and the blank / "<?php "
// heuristics of `write`).

var kindIndex = func() map[reflect.Type]int {
	m := map[reflect.Type]int{}
	for i, k := range allKinds {
		m[reflect.TypeOf(k)] = i
	}
	return m
}()

func encTok(b *strings.Builder, t *token.Token) {
	b.WriteString(strconv.Itoa(len(t.FreeFloating)))
	for _, f := range t.FreeFloating {
		b.WriteString(",x")
		if f != nil {
			b.WriteString(hex.EncodeToString(f.Value))
		}
	}
	b.WriteString(",x")
	b.WriteString(hex.EncodeToString(t.Value))
}

// encodeTree: see Driver/Main.lean for the format; ok=false when the tree holds something
// the model's tree type has no place for (nil element inside a list, unknown kind).
func encodeTree(b *strings.Builder, v ast.Vertex) bool {
	k, ok := kindIndex[reflect.TypeOf(v)]
	if !ok {
		return false
	}
	fs := fieldsOf(v)
	fmt.Fprintf(b, "N,%d,%d", k, len(fs))
	for _, f := range fs {
		b.WriteByte(',')
		switch f.Sort {
		case 1:
			if f.Val.IsNil() {
				b.WriteString("t0")
			} else {
				b.WriteString("t1,")
				encTok(b, f.Val.Interface().(*token.Token))
			}
		case 2:
			fmt.Fprintf(b, "T,%d", f.Val.Len())
			for i := 0; i < f.Val.Len(); i++ {
				if f.Val.Index(i).IsNil() {
					return false
				}
				b.WriteByte(',')
				encTok(b, f.Val.Index(i).Interface().(*token.Token))
			}
		case 3:
			if f.Val.IsNil() || isNilVertex(f.Val.Interface().(ast.Vertex)) {
				b.WriteString("k0")
			} else {
				b.WriteString("k1,")
				if !encodeTree(b, f.Val.Interface().(ast.Vertex)) {
					return false
				}
			}
		case 4:
			if f.Val.IsNil() {
				b.WriteString("l0")
			} else {
				fmt.Fprintf(b, "l1,%d", f.Val.Len())
				for i := 0; i < f.Val.Len(); i++ {
					e := f.Val.Index(i)
					if e.IsNil() || isNilVertex(e.Interface().(ast.Vertex)) {
						return false
					}
					b.WriteByte(',')
					if !encodeTree(b, e.Interface().(ast.Vertex)) {
						return false
					}
				}
			}
		case 5:
			if f.Val.IsNil() {
				b.WriteString("v0")
			} else {
				b.WriteString("v1,x" + hex.EncodeToString(f.Val.Bytes()))
			}
		default:
			b.WriteByte('_')
		}
	}
	return true
}

// stripTokens removes tokens (and truncates separator lists, drops free-floating lists) at
// random, in place.
func stripTokens(rng *rand.Rand, root ast.Vertex, p float64) int {
	n := 0
	walkTree(root, func(v ast.Vertex, _ int) {
		for _, f := range fieldsOf(v) {
			switch f.Sort {
			case 1:
				if !f.Val.IsNil() {
					if rng.Float64() < p {
						f.Val.Set(reflect.Zero(f.Val.Type()))
						n++
					} else if rng.Float64() < p {
						f.Val.Interface().(*token.Token).FreeFloating = nil
						n++
					}
				}
			case 2:
				if f.Val.Len() > 0 && rng.Float64() < p {
					f.Val.Set(f.Val.Slice(0, rng.Intn(f.Val.Len())))
					n++
				}
			}
		}
	}, 0)
	return n
}

func diffPrinter() *Result {
	r := &Result{Rule: "trees: G-tree instances of all 155 kinds (field masks, list lengths, alt-syntax, free-floating), parsed corpus trees (7.4 / 5.6), parsed trees with tokens removed at random; non-trivial = output non-empty and tree has at least 2 nodes"}
	rng := rand.New(rand.NewSource(opts.Seed))
	var lines, real []string
	distinct := map[string]bool{}
	kinds := map[string]bool{}
	add := func(tag string, root ast.Vertex) {
		var b strings.Builder
		b.WriteString("print ")
		if !encodeTree(&b, root) {
			r.inc("skipped:unencodable:" + tag)
			return
		}
		out, pan := printStr(root)
		if pan != "" {
			r.inc("skipped:printer-panic:" + tag)
			return
		}
		r.Evaluations++
		r.inc("cases:" + tag)
		lines = append(lines, b.String())
		if out == "" {
			real = append(real, "x-") // the driver's toHex of the empty string
		} else {
			real = append(real, "x"+hex.EncodeToString([]byte(out)))
		}
		nodes := 0
		walkTree(root, func(v ast.Vertex, _ int) { nodes++; kinds[kindName(v)] = true }, 0)
		if nodes >= 2 && out != "" {
			distinct[b.String()] = true
		}
	}
	for _, g := range gtreeCases(rng, opts.Tier == "thorough") {
		add("gtree", g.Root)
	}
	rounds := 2
	if opts.Tier == "thorough" {
		rounds = 12
	}
	for _, s := range loadCorpus() {
		fams := []int{s.Family}
		if s.Family == 0 {
			fams = []int{5, 7}
		}
		for _, fam := range fams {
			v := ver(7, 4)
			if fam == 5 {
				v = ver(5, 6)
			}
			po := parseSafe(s.Src, v, true)
			if po.Panic != "" || po.Root == nil {
				continue
			}
			add("parsed", po.Root)
			for k := 0; k < rounds; k++ {
				po2 := parseSafe(s.Src, v, true)
				if po2.Root == nil {
					break
				}
				p := []float64{0.05, 0.3, 1.0, 0.6}[k%4]
				if stripTokens(rng, po2.Root, p) > 0 {
					add("stripped", po2.Root)
				}
			}
		}
	}
	diffLines(r, lines, real)
	for _, m := range r.Mismatches {
		mo, _ := hex.DecodeString(strings.TrimPrefix(m.Model, "x"))
		re, _ := hex.DecodeString(strings.TrimPrefix(m.Real, "x"))
		r.fail(Failure{Site: "printer:model-vs-code", Kind: "tree", Input: clip(m.Op, 2000), Detail: "printed bytes differ: model " + printable(mo) + " real " + printable(re)})
	}
	r.DistinctNontrivial = len(distinct)
	r.stat("kinds_printed", len(kinds))
	if len(lines) > 0 {
		r.sample(map[string]interface{}{"op": clip(lines[0], 300), "real": clip(real[0], 200)})
		r.sample(map[string]interface{}{"op": clip(lines[len(lines)-1], 300), "real": clip(real[len(real)-1], 200)})
	}
	return r
}
