//go:build verif

package main

import (
	"go/ast"
	"go/parser"
	"go/token"
	"os"
	"path/filepath"
	"sort"
	"strconv"
	"strings"
)

type Snip struct {
	Src    []byte
	Origin string
	Family int // 5, 7, or 0 = not known
}

// loadCorpus returns the PHP sources the repository itself ships: the two test.php files and
// every string literal containing "<?" in a *_test.go file, plus /verif/corpus/*.php
// (minimised past failures, first).
func loadCorpus() []Snip {
	var out []Snip
	seen := map[string]bool{}
	add := func(src []byte, origin string, fam int) {
		k := strconv.Itoa(fam) + string(src)
		if seen[k] || len(src) == 0 {
			return
		}
		seen[k] = true
		out = append(out, Snip{src, origin, fam})
	}
	own, _ := filepath.Glob(filepath.Join(opts.Verif, "corpus", "*.php"))
	sort.Strings(own)
	for _, f := range own {
		if b, err := os.ReadFile(f); err == nil {
			fam := 0
			if strings.Contains(filepath.Base(f), "php5") {
				fam = 5
			} else if strings.Contains(filepath.Base(f), "php7") {
				fam = 7
			}
			add(b, "corpus/"+filepath.Base(f), fam)
		}
	}
	for _, f := range []struct {
		p   string
		fam int
	}{{"internal/php5/test.php", 5}, {"internal/php7/test.php", 7}} {
		if b, err := os.ReadFile(filepath.Join(opts.Repo, f.p)); err == nil {
			add(b, f.p, f.fam)
			// each line group separated by blank lines is a snippet of its own
			for i, chunk := range strings.Split(string(b), "\n\n") {
				c := strings.TrimSpace(chunk)
				if c == "" {
					continue
				}
				if !strings.HasPrefix(c, "<?") {
					c = "<?php\n" + c
				}
				add([]byte(c+"\n"), f.p+"#"+strconv.Itoa(i), f.fam)
			}
		}
	}
	fset := token.NewFileSet()
	filepath.Walk(opts.Repo, func(path string, info os.FileInfo, err error) error {
		if err != nil || info.IsDir() || !strings.HasSuffix(path, "_test.go") {
			return nil
		}
		f, err := parser.ParseFile(fset, path, nil, 0)
		if err != nil {
			return nil
		}
		rel, _ := filepath.Rel(opts.Repo, path)
		fam := 0
		if strings.Contains(rel, "php5") {
			fam = 5
		} else if strings.Contains(rel, "php7") {
			fam = 7
		}
		ast.Inspect(f, func(n ast.Node) bool {
			bl, ok := n.(*ast.BasicLit)
			if !ok || bl.Kind != token.STRING {
				return true
			}
			s, err := strconv.Unquote(bl.Value)
			if err != nil || !strings.Contains(s, "<?") {
				return true
			}
			add([]byte(s), rel+":"+strconv.Itoa(fset.Position(bl.Pos()).Line), fam)
			return true
		})
		return nil
	})
	return out
}
