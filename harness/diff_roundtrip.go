//go:build verif

package main

import (
	"bytes"
	"encoding/hex"
	"fmt"

	"github.com/z7zmey/php-parser/pkg/ast"
	"github.com/z7zmey/php-parser/pkg/conf"
	"github.com/z7zmey/php-parser/pkg/errors"
	"github.com/z7zmey/php-parser/pkg/parser"
	"github.com/z7zmey/php-parser/pkg/visitor/printer"
)

func init() { commands["diff-roundtrip"] = diffRoundtrip }

// diff-roundtrip (T-diff of M-ROUND): parse then print.  The Lean composition — scanner model, driver and
// action models, the conversion of the parser model's value into the printer model's tree, printer model,
// render — against `printer` on `parser.Parse` of the same source bytes, whatever tree is returned (with or
// without syntax errors), under 7.4 and 5.6.  The count of sources on which the printed bytes are the
// source itself (C02's statement, here evaluated inside the model) is reported.
func diffRoundtrip() *Result {
	r := &Result{Rule: "sources of diff-yy's generators (corpus, grammar-driven sentences, the same with a token deleted / inserted / swapped or the text truncated, short byte strings), every fourth mutated one in the thorough tier, every 8th in the quick tier: bytes printed by the real printer from the real parser's tree = bytes printed by the model pipeline; 7.4 and 5.6"}
	srcs, tags := yyInputs(r)
	var lines, real []string
	var metas []int
	seen := map[string]bool{}
	stat := map[string]int{}
	n := 0
	for i, s := range srcs {
		if len(s) > 6000 {
			continue
		}
		switch tags[i] {
		case "regression", "corpus", "g-cfg":
		default:
			n++
			k := 8
			if opts.Tier == "thorough" {
				k = 4
			}
			if n%k != 0 {
				continue
			}
		}
		for _, v := range [][3]uint64{{7, 4, 1}, {5, 6, 0}} {
			key := fmt.Sprint(v) + string(s)
			if seen[key] {
				continue
			}
			seen[key] = true
			var root ast.Vertex
			nerr := 0
			ppan := ""
			out := ""
			func() {
				defer func() {
					if e := recover(); e != nil {
						ppan = fmt.Sprint(e)
					}
				}()
				cfg := conf.Config{Version: ver(v[0], v[1]), ErrorHandlerFunc: func(e *errors.Error) { nerr++ }}
				root, _ = parser.Parse(s, cfg)
				if root != nil && !isNilVertex(root) {
					var b bytes.Buffer
					root.Accept(printer.NewPrinter(&b))
					out = "x" + hexOr(b.Bytes())
					if nerr == 0 {
						if bytes.Equal(b.Bytes(), s) {
							stat["error-free:printed=source"]++
						} else {
							stat["error-free:printed!=source"]++
						}
					} else {
						stat["with-errors:tree-printed"]++
					}
				} else {
					out = "-"
					stat["no-tree"]++
				}
			}()
			if ppan != "" {
				stat["skipped:real-panic"]++
				continue
			}
			h := hex.EncodeToString(s)
			if h == "" {
				h = "-"
			}
			fam := "7"
			if v[0] == 5 {
				fam = "5"
			}
			lines = append(lines, fmt.Sprintf("roundtrip %s %d %s", fam, v[2], h))
			real = append(real, out)
			metas = append(metas, i)
			stat["tag:"+tags[i]]++
		}
	}
	diffLines(r, lines, real)
	for k, v := range stat {
		r.stat(k, v)
	}
	r.Evaluations = len(lines)
	r.DistinctNontrivial = stat["error-free:printed=source"] + stat["with-errors:tree-printed"] + stat["error-free:printed!=source"]
	_ = metas
	return r
}
