//go:build verif

package main

import "math/rand"

// G-bytes (DESIGN.md §2.5): lexically interesting alphabet, exhaustive up to k after prefixes
// that put the scanner into each of its machines.
var gbAlphabet = []byte("<?ph${}\"'\\\n\ra1 ;->[]`#/*=(")

var gbPrefixes = []string{
	"", "<?php ", "<?", "<?=", "<?php \"", "<?php '", "<?php `", "<?php <<<A\n", "<?php <<<'A'\n", "<?php $a->", "<?php \"$a", "<?php \"{$a",
	"<?php \"${a", "<?php __halt_compiler", "<?php //", "<?php /*", "<?php #", "x", "<?php ?>", "<?php <<<A\nx\n", "<?php \"$a[",
	"<?php <<<\"A\"\n$a", "<?php f(", "<?php <<<A\n\n ",
}

func genBytesExhaustive(k int) [][]byte {
	var out [][]byte
	for _, p := range gbPrefixes {
		var rec func(cur []byte, d int)
		rec = func(cur []byte, d int) {
			out = append(out, append([]byte(p), cur...))
			if d == k {
				return
			}
			for _, c := range gbAlphabet {
				rec(append(append([]byte(nil), cur...), c), d+1)
			}
		}
		rec(nil, 0)
	}
	return out
}

func genBytesRandom(rng *rand.Rand, n, maxLen int) [][]byte {
	var out [][]byte
	frag := []string{"<?php ", "?>", "<<<A\n", "\nA;\n", "\nA", "$a", "${", "{$", "}", "\"", "'", "`", "->", "::", "[", "]", "(", ")", ";", "\r", "\n", "\r\n", "\\", "/*", "*/", "//", "#", "<", "<?", "<?=",
		"__halt_compiler", "();", "0x", "1e", ".", "=", "&", "function ", "class ", "namespace ", "use ", "echo ", "if ", "else", ":", ",", "yield from", "fn", "=>", "??=", "<<<'A'\n", "<<<\"A\"\n", " ", "\t", "a", "1", "\x80", "\x00", "#!/bin/php\n"}
	for i := 0; i < n; i++ {
		var b []byte
		l := 1 + rng.Intn(maxLen)
		for len(b) < l {
			if rng.Intn(4) == 0 {
				b = append(b, byte(rng.Intn(256)))
			} else {
				b = append(b, frag[rng.Intn(len(frag))]...)
			}
		}
		out = append(out, b)
	}
	return out
}

// truncations: every prefix of src (step 1 for short, sampled for long)
func truncations(src []byte, rng *rand.Rand, max int) [][]byte {
	var out [][]byte
	if len(src) <= max {
		for i := 0; i <= len(src); i++ {
			out = append(out, src[:i])
		}
		return out
	}
	for i := 0; i < max; i++ {
		out = append(out, src[:rng.Intn(len(src)+1)])
	}
	return out
}

func mutations(src []byte, rng *rand.Rand, n int) [][]byte {
	var out [][]byte
	if len(src) == 0 {
		return out
	}
	for i := 0; i < n; i++ {
		b := append([]byte(nil), src...)
		switch rng.Intn(4) {
		case 0: // replace a byte
			b[rng.Intn(len(b))] = gbAlphabet[rng.Intn(len(gbAlphabet))]
		case 1: // delete a byte
			j := rng.Intn(len(b))
			b = append(b[:j], b[j+1:]...)
		case 2: // insert a byte
			j := rng.Intn(len(b) + 1)
			b = append(b[:j], append([]byte{gbAlphabet[rng.Intn(len(gbAlphabet))]}, b[j:]...)...)
		case 3: // delete a span
			j := rng.Intn(len(b))
			k := j + rng.Intn(len(b)-j+1)
			b = append(b[:j], b[k:]...)
		}
		out = append(out, b)
	}
	return out
}
