//go:build verif

package main

import (
	"encoding/hex"
	"fmt"
	"math/rand"
	"reflect"
	"strconv"
	"strings"

	"github.com/z7zmey/php-parser/pkg/ast"
	"github.com/z7zmey/php-parser/pkg/position"
	"github.com/z7zmey/php-parser/pkg/token"
)

func init() {
	commands["diff-formatter"] = diffFormatter
}

// diff-formatter (T-diff of M-FMT): the Lean formatter model — the interpreter of Model/Fmt.lean over
// the instruction lists gofacts regenerates from formatter.go — is run on an encoding of a tree
// (token ids included), the real formatter on the tree itself.  Compared: a dump of every token of
// the formatted tree (field, id, value, every free-floating entry with its id) and the bytes the
// printer makes of the formatted tree (model: printer model on the model's tree); a Go panic must be
// the model's `panic`.  Trees: G-tree instances of every kind (absent children and tokens included),
// parsed corpus and grammar-driven sources under 7.4 / 5.6, the same with other trivia, with tokens
// removed at random, and trees that went through the formatter once already.
// Half of the trees get their child slices re-allocated with capacity = length, half keep what the
// parser's appends left (formatStmts' `insert` must not depend on spare capacity).

func posWord(p *position.Position) string {
	if p == nil {
		return "p-"
	}
	return fmt.Sprintf("p%d:%d:%d:%d", p.StartLine, p.EndLine, p.StartPos, p.EndPos)
}

func encTokI(b *strings.Builder, t *token.Token) {
	b.WriteString(strconv.Itoa(len(t.FreeFloating)))
	for _, f := range t.FreeFloating {
		if f != nil {
			fmt.Fprintf(b, ",%d,x%s,%s", int(f.ID), hex.EncodeToString(f.Value), posWord(f.Position))
		} else {
			b.WriteString(",0,x,p-")
		}
	}
	fmt.Fprintf(b, ",%d,x%s,%s", int(t.ID), hex.EncodeToString(t.Value), posWord(t.Position))
}

// encodeTreeI: encodeTree with token ids; ok=false also when a free-floating entry is nil.
func encodeTreeI(b *strings.Builder, v ast.Vertex) bool {
	k, ok := kindIndex[reflect.TypeOf(v)]
	if !ok {
		return false
	}
	fs := fieldsOf(v)
	fmt.Fprintf(b, "N,%d,%d,%s", k, len(fs), posWord(v.GetPosition()))
	tokOK := func(t *token.Token) bool {
		for _, f := range t.FreeFloating {
			if f == nil {
				return false
			}
		}
		return true
	}
	for _, f := range fs {
		b.WriteByte(',')
		switch f.Sort {
		case 1:
			if f.Val.IsNil() {
				b.WriteString("t0")
			} else {
				t := f.Val.Interface().(*token.Token)
				if !tokOK(t) {
					return false
				}
				b.WriteString("t1,")
				encTokI(b, t)
			}
		case 2:
			if f.Val.IsNil() {
				b.WriteString("Tn")
				continue
			}
			fmt.Fprintf(b, "T,%d", f.Val.Len())
			for i := 0; i < f.Val.Len(); i++ {
				if f.Val.Index(i).IsNil() {
					return false
				}
				t := f.Val.Index(i).Interface().(*token.Token)
				if !tokOK(t) {
					return false
				}
				b.WriteByte(',')
				encTokI(b, t)
			}
		case 3:
			if f.Val.IsNil() || isNilVertex(f.Val.Interface().(ast.Vertex)) {
				b.WriteString("k0")
			} else {
				b.WriteString("k1,")
				if !encodeTreeI(b, f.Val.Interface().(ast.Vertex)) {
					return false
				}
			}
		case 4:
			if f.Val.IsNil() {
				b.WriteString("l0")
			} else {
				fmt.Fprintf(b, "l1,%d", f.Val.Len())
				for i := 0; i < f.Val.Len(); i++ {
					e := f.Val.Index(i)
					if e.IsNil() || isNilVertex(e.Interface().(ast.Vertex)) {
						return false
					}
					b.WriteByte(',')
					if !encodeTreeI(b, e.Interface().(ast.Vertex)) {
						return false
					}
				}
			}
		case 5:
			if f.Val.IsNil() {
				b.WriteString("v0")
			} else {
				b.WriteString("v1,x" + hex.EncodeToString(f.Val.Bytes()))
			}
		default:
			b.WriteByte('_')
		}
	}
	return true
}

func hexOr(b []byte) string {
	if len(b) == 0 {
		return "-"
	}
	return hex.EncodeToString(b)
}

// dumpTreeTokens: the driver's dumpTree (Driver/Main.lean) on a real tree
func dumpTreeTokens(b *strings.Builder, v ast.Vertex) {
	fmt.Fprintf(b, "N%d(", kindIndex[reflect.TypeOf(v)])
	first := true
	sep := func() {
		if !first {
			b.WriteByte(';')
		}
		first = false
	}
	dt := func(t *token.Token) {
		fmt.Fprintf(b, "[%d:%s|", int(t.ID), hexOr(t.Value))
		for _, f := range t.FreeFloating {
			if f != nil {
				fmt.Fprintf(b, "<%d:%s>", int(f.ID), hexOr(f.Value))
			}
		}
		b.WriteByte(']')
	}
	for i, f := range fieldsOf(v) {
		switch f.Sort {
		case 1:
			if !f.Val.IsNil() {
				sep()
				fmt.Fprintf(b, "%dt", i)
				dt(f.Val.Interface().(*token.Token))
			}
		case 2:
			n := 0
			for j := 0; j < f.Val.Len(); j++ {
				if !f.Val.Index(j).IsNil() {
					n++
				}
			}
			if n > 0 {
				sep()
				fmt.Fprintf(b, "%dt", i)
				for j := 0; j < f.Val.Len(); j++ {
					if !f.Val.Index(j).IsNil() {
						dt(f.Val.Index(j).Interface().(*token.Token))
					}
				}
			}
		case 3:
			if !f.Val.IsNil() && !isNilVertex(f.Val.Interface().(ast.Vertex)) {
				sep()
				fmt.Fprintf(b, "%dk", i)
				dumpTreeTokens(b, f.Val.Interface().(ast.Vertex))
			}
		case 4:
			if f.Val.Len() > 0 {
				sep()
				fmt.Fprintf(b, "%dk", i)
				for j := 0; j < f.Val.Len(); j++ {
					dumpTreeTokens(b, f.Val.Index(j).Interface().(ast.Vertex))
				}
			}
		}
	}
	b.WriteByte(')')
}

// exactCaps re-allocates every child slice with capacity = length (nil stays nil).
func exactCaps(root ast.Vertex) {
	walkTree(root, func(v ast.Vertex, _ int) {
		for _, f := range fieldsOf(v) {
			if f.Sort == 4 && !f.Val.IsNil() {
				nv := reflect.MakeSlice(f.Val.Type(), f.Val.Len(), f.Val.Len())
				reflect.Copy(nv, f.Val)
				f.Val.Set(nv)
			}
		}
	}, 0)
}

func diffFormatter() *Result {
	r := &Result{Rule: "trees: G-tree instances of all 155 kinds (field masks: absent children and tokens, list lengths), parsed corpus and grammar-driven sources (7.4 / 5.6), their trivia variants, the same with tokens removed at random, already formatted trees; compared: every token of the formatted tree (id, value, free-floating ids and values), the printed bytes, and panics; non-trivial = formatted without panic and tree has at least 2 nodes"}
	rng := rand.New(rand.NewSource(opts.Seed))
	var lines, real []string
	distinct := map[string]bool{}
	kinds := map[string]bool{}
	add := func(tag string, root ast.Vertex) {
		if root == nil || isNilVertex(root) {
			return
		}
		if rng.Intn(2) == 0 {
			exactCaps(root)
		}
		var b strings.Builder
		b.WriteString("format ")
		if !encodeTreeI(&b, root) {
			r.inc("skipped:unencodable:" + tag)
			return
		}
		line := b.String()
		if distinct["L"+line] {
			r.inc("duplicate-tree")
			return
		}
		distinct["L"+line] = true
		nodes := 0
		walkTree(root, func(v ast.Vertex, _ int) { nodes++; kinds[kindName(v)] = true }, 0)
		ans := ""
		if pan := formatSafe(root); pan != "" {
			ans = "panic"
			r.inc("real-panics:" + tag)
		} else {
			var d strings.Builder
			dumpTreeTokens(&d, root)
			out, pan := printStr(root)
			if pan != "" {
				r.inc("skipped:printer-panic:" + tag)
				return
			}
			ans = d.String() + " x" + hexOr([]byte(out))
			if nodes >= 2 {
				distinct[line] = true
			}
		}
		r.Evaluations++
		r.inc("cases:" + tag)
		lines = append(lines, line)
		real = append(real, ans)
	}
	for _, g := range gtreeCases(rng, opts.Tier == "thorough") {
		add("gtree", g.Root)
	}
	rounds := 1
	if opts.Tier == "thorough" {
		rounds = 6
	}
	parseAdd := func(src []byte, fam int, tag string) {
		v := ver(7, 4)
		if fam == 5 {
			v = ver(5, 6)
		}
		po := parseSafe(src, v, true)
		if po.Panic != "" || po.Root == nil {
			return
		}
		add(tag, po.Root)
		// the formatted tree once more (the second formatting of C17 on the tree level)
		add(tag+":again", po.Root)
		for k := 0; k < rounds; k++ {
			po2 := parseSafe(src, v, true)
			if po2.Root == nil {
				break
			}
			p := []float64{0.3, 0.05, 1.0, 0.6}[k%4]
			if stripTokens(rng, po2.Root, p) > 0 {
				add(tag+":stripped", po2.Root)
			}
		}
	}
	for _, s := range loadCorpus() {
		fams := []int{s.Family}
		if s.Family == 0 {
			fams = []int{5, 7}
		}
		for _, fam := range fams {
			parseAdd(s.Src, fam, "parsed")
			if len(s.Src) < 4000 {
				for _, tv := range triviaVariants(s.Src, rng, 3) {
					parseAdd(tv, fam, "trivia")
				}
			}
		}
	}
	for i, s := range cfgSentences(rng) {
		if opts.Tier != "thorough" && i%3 != 0 {
			continue
		}
		parseAdd(s, 7, "g-cfg")
		parseAdd(s, 5, "g-cfg")
	}
	ncombo := 150
	if opts.Tier == "thorough" {
		ncombo = 2000
	}
	for _, b := range docCombos(rng, ncombo) {
		parseAdd(b, 7, "doc-combo")
	}
	for i, b := range signChainSources() {
		if opts.Tier == "thorough" || i%3 == 0 {
			parseAdd(b, 7, "sign-chain")
		}
	}
	var pool [][]byte
	for _, s := range loadCorpus() {
		pool = append(pool, s.Src)
	}
	for _, b := range combineSources(rng, pool, ncombo) {
		parseAdd(b, 7, "combined")
	}
	diffLines(r, lines, real)
	// a mismatch breaks the tie (reported by the runner as CORRESPONDENCE-BROKEN); whether the property fails on
	// some input is for oracle-C17 to find on the real code
	n := 0
	for k := range distinct {
		if !strings.HasPrefix(k, "L") {
			n++
		}
	}
	r.DistinctNontrivial = n
	r.stat("kinds_formatted", len(kinds))
	if len(lines) > 0 {
		r.sample(map[string]interface{}{"op": clip(lines[0], 300), "real": clip(real[0], 200)})
		r.sample(map[string]interface{}{"op": clip(lines[len(lines)-1], 300), "real": clip(real[len(real)-1], 200)})
	}
	return r
}
