//go:build verif

package main

import (
	"fmt"
	"math/rand"
	"reflect"
	"strings"

	"github.com/z7zmey/php-parser/pkg/ast"
	"github.com/z7zmey/php-parser/pkg/token"
)

func init() {
	commands["oracle-C03"] = oracleC03
	oracles["C03kw"] = evalC03keywords
	oracles["C03v"] = evalC03versions
	oracles["C03off"] = evalC03offset
}

type opW struct {
	sym, text string
}

var binOps7 = []opW{{"'+'", "+"}, {"'-'", "-"}, {"'*'", "*"}, {"'/'", "/"}, {"'%'", "%"}, {"'.'", "."}, {"T_POW", "**"}, {"T_SL", "<<"}, {"T_SR", ">>"},
	{"'<'", "<"}, {"'>'", ">"}, {"T_IS_SMALLER_OR_EQUAL", "<="}, {"T_IS_GREATER_OR_EQUAL", ">="}, {"T_IS_EQUAL", "=="}, {"T_IS_NOT_EQUAL", "!="}, {"T_IS_IDENTICAL", "==="},
	{"T_IS_NOT_IDENTICAL", "!=="}, {"'&'", "&"}, {"'^'", "^"}, {"'|'", "|"}, {"T_BOOLEAN_AND", "&&"}, {"T_BOOLEAN_OR", "||"}, {"T_LOGICAL_AND", "and"}, {"T_LOGICAL_XOR", "xor"},
	{"T_LOGICAL_OR", "or"}, {"T_COALESCE", "??"}, {"T_SPACESHIP", "<=>"}}
var asgOps7 = []opW{{"'='", "="}, {"T_PLUS_EQUAL", "+="}, {"T_CONCAT_EQUAL", ".="}, {"T_POW_EQUAL", "**="}, {"T_SL_EQUAL", "<<="}, {"T_AND_EQUAL", "&="}, {"T_COALESCE_EQUAL", "??="}}
var preOps = []opW{{"'!'", "!"}, {"'~'", "~"}, {"T_INC", "-"}, {"T_INC", "+"}, {"'@'", "@"}, {"T_INT_CAST", "(int)"}, {"T_STRING_CAST", "(string)"}, {"T_BOOL_CAST", "(bool)"},
	{"T_ARRAY_CAST", "(array)"}, {"T_PRINT", "print"}, {"T_CLONE", "clone"}, {"T_INCLUDE", "include"}}

func only5(ops []opW) []opW {
	var out []opW
	for _, o := range ops {
		if o.sym != "T_COALESCE" && o.sym != "T_SPACESHIP" && o.sym != "T_COALESCE_EQUAL" {
			out = append(out, o)
		}
	}
	return out
}

type exprGen struct {
	rng   *rand.Rand
	fam   int
	words []string
	text  []string
	nvar  int
}

func (g *exprGen) emit(w, t string) { g.words = append(g.words, w); g.text = append(g.text, t) }

func (g *exprGen) atom() {
	v := fmt.Sprintf("$%c", 'a'+g.nvar%6)
	g.nvar++
	g.emit("v\x1f"+v, v)
}

func (g *exprGen) gen(depth int) {
	bins, asgs := binOps7, asgOps7
	if g.fam == 5 {
		bins, asgs = only5(binOps7), only5(asgOps7)
	}
	if depth <= 0 {
		g.atom()
		return
	}
	switch g.rng.Intn(10) {
	case 0, 1:
		g.atom()
	case 2:
		o := preOps[g.rng.Intn(len(preOps))]
		g.emit("pre\x1f"+o.sym+"\x1f"+o.text, o.text)
		g.gen(depth - 1)
	case 3, 4, 5, 6:
		g.gen(depth - 1)
		o := bins[g.rng.Intn(len(bins))]
		g.emit("bin\x1f"+o.sym+"\x1f"+o.text, o.text)
		g.gen(depth - 1)
	case 7:
		g.gen(depth - 1)
		g.emit("q\x1f'?'", "?")
		if g.rng.Intn(3) > 0 {
			g.gen(depth - 1)
		}
		g.emit("c", ":")
		g.gen(depth - 1)
	case 8:
		g.atom()
		o := asgs[g.rng.Intn(len(asgs))]
		g.emit("asg\x1f"+o.sym+"\x1f"+o.text, o.text)
		g.gen(depth - 1)
	case 9:
		g.gen(depth - 1)
		g.emit("i\x1fT_INSTANCEOF", "instanceof")
		n := []string{"B", "Foo", "C"}[g.rng.Intn(3)]
		g.emit("n\x1f"+n, n)
	}
}

// parenText: fully parenthesised rendering of an expression tree of the real parser
func parenText(src []byte, n ast.Vertex) string {
	if isNilVertex(n) {
		return ""
	}
	switch n.(type) {
	case *ast.ExprVariable, *ast.Name, *ast.NameFullyQualified, *ast.NameRelative, *ast.ScalarLnumber, *ast.ScalarDnumber, *ast.ScalarString, *ast.ExprConstFetch, *ast.Identifier:
		p := n.GetPosition()
		if p != nil && p.StartPos >= 0 && p.EndPos <= len(src) {
			return string(src[p.StartPos:p.EndPos])
		}
	}
	var parts []string
	for _, f := range fieldsOf(n) {
		switch f.Sort {
		case 1:
			if !f.Val.IsNil() {
				parts = append(parts, string(f.Val.Interface().(*token.Token).Value))
			}
		case 3:
			if !f.Val.IsNil() {
				parts = append(parts, parenText(src, f.Val.Interface().(ast.Vertex)))
			}
		case 4:
			for i := 0; i < f.Val.Len(); i++ {
				parts = append(parts, parenText(src, f.Val.Index(i).Interface().(ast.Vertex)))
			}
		}
	}
	return "(" + strings.Join(parts, " ") + ")"
}

var keywordsCI = []string{"abstract", "array", "as", "break", "callable", "case", "catch", "class", "clone", "const", "continue", "declare", "default", "do", "echo", "else", "elseif", "empty",
	"enddeclare", "endfor", "endforeach", "endif", "endswitch", "endwhile", "eval", "exit", "die", "extends", "final", "finally", "for", "foreach", "function", "cfunction", "fn", "global", "goto", "if",
	"isset", "implements", "instanceof", "insteadof", "interface", "list", "namespace", "private", "public", "print", "protected", "return", "static", "switch", "throw", "trait", "try", "unset", "use",
	"var", "while", "yield", "include", "include_once", "require", "require_once", "__class__", "__dir__", "__file__", "__function__", "__line__", "__namespace__", "__method__", "__trait__",
	"__halt_compiler", "new", "and", "or", "xor", "(int)", "(integer)", "(bool)", "(boolean)", "(float)", "(double)", "(real)", "(string)", "(binary)", "(array)", "(object)", "(unset)"}

// evalC03keywords: src = one keyword spelling; every case pattern of it must lex to the same token id.
func evalC03keywords(src []byte, cfg string) (o Outcome) {
	kw := string(src)
	base, _, pan := lexAll([]byte("<?php "+strings.ToLower(kw)+" "), 7, 4)
	if pan != "" || len(base) != 1 {
		o.Reject = "keyword-does-not-lex-to-one-token"
		return
	}
	letters := 0
	for _, c := range kw {
		if c >= 'a' && c <= 'z' {
			letters++
		}
	}
	limit := 1 << uint(letters)
	step := 1
	if letters > 10 {
		step = limit/1024 + 1 // sample 1024 patterns of long keywords, always including all-upper
	}
	for m := 0; m < limit; m += step {
		b := []byte(kw)
		k := 0
		for i, c := range b {
			if c >= 'a' && c <= 'z' {
				if m&(1<<uint(k)) != 0 {
					b[i] = c - 32
				}
				k++
			}
		}
		lt, _, pan := lexAll([]byte("<?php "+string(b)+" "), 7, 4)
		if pan != "" || len(lt) != 1 || lt[0].ID != base[0].ID {
			o.Fails = append(o.Fails, Failure{Site: "keyword-case:" + kw, Kind: "input", Input: string(b), Detail: fmt.Sprintf("%q lexes to token id %d, %q does not (case-insensitivity)", strings.ToLower(kw), int(base[0].ID), string(b))})
			return
		}
	}
	o.Nontrivial = true
	return
}

// evalC03versions: cfg = "7only" / "73heredoc" / "valid": accepted exactly under the versions that have the syntax.
func evalC03versions(src []byte, cfg string) (o Outcome) {
	errsUnder := func(a, b uint64) (int, string) {
		po := parseSafe(src, ver(a, b), true)
		if po.Panic != "" {
			return -1, po.Panic
		}
		return len(po.Errs), errsStr(po.Errs)
	}
	want := map[string][]bool{ // 5.6, 7.2, 7.3, 7.4 accepted?
		"7only": {false, true, true, true}, "73heredoc": {false, false, true, true}, "valid": {true, true, true, true}, "valid7": {false, true, true, true},
	}[strings.SplitN(cfg, ":", 2)[0]]
	vs := [][2]uint64{{5, 6}, {7, 2}, {7, 3}, {7, 4}}
	for i, v := range vs {
		n, d := errsUnder(v[0], v[1])
		if n < 0 {
			o.Fails = append(o.Fails, Failure{Site: "panic", Kind: "input", Config: fmt.Sprint(v), Detail: d})
			continue
		}
		if (n == 0) != want[i] {
			site := "version-acceptance:" + cfg
			if loneCR(src) {
				site = "lone-CR-reported"
			}
			o.Fails = append(o.Fails, Failure{Site: site, Kind: "input", Config: fmt.Sprintf("%d.%d", v[0], v[1]),
				Detail: fmt.Sprintf("expected accepted=%v under %d.%d, got %d error(s): %s", want[i], v[0], v[1], n, clip(d, 200))})
		}
	}
	o.Nontrivial = true
	return
}

// evalC03offset: a bare offset in a simple interpolation ("$a[offset]").  cfg = the node kind PHP's scanner
// rules prescribe for the offset (ST_VAR_OFFSET: `[0]|([1-9][0-9]*)` that fits a 64-bit integer is an
// integer, every other number spelling — leading zeros, hex, binary, overflow — is a string key that
// keeps its text; `-` negates an integer and is prefixed to a string), and the versions to try.
func evalC03offset(src []byte, cfg string) (o Outcome) {
	sp := strings.SplitN(cfg, "/", 2)
	want := sp[0]
	for _, vs := range strings.Split(sp[1], ",") {
		a, b := parseVer(vs)
		po := parseSafe(src, ver(a, b), true)
		if po.Panic != "" {
			o.Fails = append(o.Fails, Failure{Site: "panic:" + po.Site, Kind: "input", Config: vs, Detail: clip(po.Panic, 200)})
			continue
		}
		if po.Root == nil || len(po.Errs) > 0 {
			o.Fails = append(o.Fails, Failure{Site: "offset-rejected", Kind: "input", Config: vs, Detail: "valid interpolation rejected: " + clip(errsStr(po.Errs), 200)})
			continue
		}
		got := ""
		val := ""
		walkTree(po.Root, func(n ast.Vertex, _ int) {
			df, ok := n.(*ast.ExprArrayDimFetch)
			if !ok || got != "" || isNilVertex(df.Dim) {
				return
			}
			switch d := df.Dim.(type) {
			case *ast.ScalarLnumber:
				got, val = "int", string(d.Value)
			case *ast.ScalarString:
				got, val = "str", string(d.Value)
			case *ast.ExprUnaryMinus:
				if l, ok := d.Expr.(*ast.ScalarLnumber); ok {
					got, val = "negint", string(l.Value)
				} else {
					got = "neg-other"
				}
			default:
				got = reflect.TypeOf(df.Dim).Elem().Name()
			}
		}, 0)
		if got != want {
			site := "offset-kind"
			if want == "str" && (got == "int" || got == "negint") && len(val) > 1 && val[0] == '0' && strings.Trim(val, "0123456789") == "" {
				site = "offset-kind:leading-zero"
			}
			if want == "str" && got == "negint" && val == "0" {
				site = "offset-kind:leading-zero" // "-0": PHP keeps the string "-0"
			}
			o.Fails = append(o.Fails, Failure{Site: site, Kind: "input", Config: vs,
				Detail: fmt.Sprintf("the offset is a %s node (value %q), PHP's rules make it %s", got, val, want)})
		}
	}
	o.Nontrivial = true
	return
}

var sevenOnly = []string{"<?php $a ?? $b;", "<?php $a <=> $b;", "<?php function f(int $x): ?string {}", "<?php use A\\{B, C};", "<?php new class {};", "<?php yield from $g;",
	"<?php [$a, $b] = $c;", "<?php $a ??= 1;", "<?php fn($x) => $x;", "<?php class A { public int $p; }", "<?php try {} catch (A | B $e) {}", "<?php $x = (clone $a)->b;",
	"<?php foo()();", "<?php class A { const B = 1 + 2; public function list() {} }"}
var heredoc73 = []string{"<?php echo <<<A\n  x\n  A;\n", "<?php f(<<<A\nx\nA, 1);\n", "<?php $a = [<<<A\n a\n A, 2];\n", "<?php echo <<<'A'\n\tx\n\tA . 'y';\n"}

func oracleC03() *Result {
	r := &Result{Rule: "(1) operator chains: random expressions over all binary, unary, cast, assignment, ternary / short ternary, instanceof operators, written without parentheses (2..7 operators); the real parser's tree rendered fully parenthesised must equal the grouping computed by the Lean precedence-climbing reference over PHP's documented table (driver `climb`), for 7.4 and for 5.6 (without ?? <=> ??=); where the reference rejects (two non-associative operators in a row) the parser must report an error. (2) every keyword and cast spelling in every case pattern (all 2^n for n <= 10 letters, 1024 sampled beyond) lexes to the same token. (3) PHP 7-only constructs are accepted under 7.x and rejected under 5.6, flexible heredoc terminators accepted exactly from 7.3, grammar-driven sentences and corpus accepted by their family (valid programs: no error). Non-trivial = distinct expression / keyword / program evaluated"}
	rng := newRand("C03")
	n := 1500
	if opts.Tier == "thorough" {
		n = 40000
	}
	type job struct {
		fam   int
		src   string
		words []string
	}
	var jobs []job
	var lines []string
	for i := 0; i < n; i++ {
		fam := 7
		if i%3 == 0 {
			fam = 5
		}
		g := &exprGen{rng: rng, fam: fam}
		g.gen(1 + rng.Intn(3))
		if len(g.words) < 3 {
			continue
		}
		jobs = append(jobs, job{fam, "<?php " + strings.Join(g.text, " ") + " ;", g.words})
		lines = append(lines, fmt.Sprintf("climb %d %s", fam, strings.Join(g.words, " ")))
	}
	ans, err := modelAnswers(lines)
	if err != nil {
		r.fail(Failure{Site: "driver", Kind: "input", Detail: err.Error()})
		return r
	}
	seen := map[string]bool{}
	nerr := 0
	for i, j := range jobs {
		r.Evaluations++
		v := [2]uint64{7, 4}
		if j.fam == 5 {
			v = [2]uint64{5, 6}
		}
		po := parseSafe([]byte(j.src), ver(v[0], v[1]), true)
		if po.Panic != "" {
			r.fail(Failure{Site: "panic:" + po.Site, Kind: "input", Input: j.src, Detail: po.Panic})
			continue
		}
		if !seen[j.src] {
			seen[j.src] = true
			r.DistinctNontrivial++
		}
		want := ans[i]
		if want == "error" {
			nerr++
			if len(po.Errs) == 0 {
				r.fail(Failure{Site: "nonassoc-accepted", Kind: "input", Input: j.src, Config: fmt.Sprint(v), Detail: "PHP's table makes this chain of non-associative operators a syntax error; the parser accepted it"})
			}
			continue
		}
		if want == "bad-token" {
			r.fail(Failure{Site: "generator", Kind: "input", Input: j.src, Detail: "token unknown to the spec table: " + lines[i]})
			continue
		}
		if len(po.Errs) > 0 || po.Root == nil {
			r.fail(Failure{Site: "valid-expression-rejected", Kind: "input", Input: j.src, Config: fmt.Sprint(v), Detail: "reference groups it as " + want + "; the parser reports " + clip(errsStr(po.Errs), 200)})
			continue
		}
		root := po.Root.(*ast.Root)
		if len(root.Stmts) != 1 {
			continue
		}
		se, ok := root.Stmts[0].(*ast.StmtExpression)
		if !ok {
			continue
		}
		got := parenText([]byte(j.src), se.Expr)
		if got != want {
			// name the operator pair at the first difference for a stable site
			k := firstDiff([]byte(got), []byte(want))
			r.fail(Failure{Site: "grouping", Kind: "input", Input: j.src, Config: fmt.Sprintf("%d.%d", v[0], v[1]), Detail: fmt.Sprintf("parser groups %s, PHP's precedence table gives %s (first difference at %d)", got, want, k)})
		}
		if i%400 == 0 {
			r.sample(map[string]string{"source": j.src, "grouping": want})
		}
	}
	r.stat("chains_rejected_by_reference", nerr)
	// (2) (3) in workers
	var tasks []Task
	for _, kw := range keywordsCI {
		tasks = append(tasks, Task{Oracle: "C03kw", Cfg: "-", Src: []byte(kw), Tag: "keyword-case"})
	}
	for _, s := range sevenOnly {
		tasks = append(tasks, Task{Oracle: "C03v", Cfg: "7only", Src: []byte(s), Tag: "php7-only"})
	}
	for _, s := range heredoc73 {
		tasks = append(tasks, Task{Oracle: "C03v", Cfg: "73heredoc", Src: []byte(s), Tag: "heredoc-7.3"})
	}
	// number and string spellings (the scanner's letter-case and prefix handling)
	for _, s := range []string{"echo 0X1F + 0x1f + 0XaB;", "echo 0B11 + 0b11;", "echo 1E3 + 1e3 + 1.5E-2;", "echo b\"abc\" . B\"abc\";", "echo b<<<A\nx\nA;\n", "echo B<<<'A'\nx\nA;\n",
		"$a = 017 + 0 + 00;", "echo \"$a[0X1F] $a[0B1]\";"} {
		tasks = append(tasks, Task{Oracle: "C03v", Cfg: "valid", Src: []byte("<?php " + s), Tag: "literal-spelling"})
	}
	for _, s := range []string{"echo b'abc';", "echo B'abc' . 'x';"} {
		tasks = append(tasks, Task{Oracle: "C03v", Cfg: "valid:binary-single", Src: []byte("<?php " + s), Tag: "literal-spelling"})
	}
	for _, s := range []string{"echo b\"a$x\";", "echo B\"{$x}\";"} {
		tasks = append(tasks, Task{Oracle: "C03v", Cfg: "valid:binary-template", Src: []byte("<?php " + s), Tag: "literal-spelling"})
	}
	for _, s := range heredocLookalikes() {
		tasks = append(tasks, Task{Oracle: "C03v", Cfg: "valid", Src: s, Tag: "heredoc-lookalike"})
	}
	{
		st, ca := heredocTrailers()
		for _, s := range st {
			tasks = append(tasks, Task{Oracle: "C03v", Cfg: "valid", Src: s, Tag: "heredoc-trailer"})
		}
		for _, s := range ca {
			tasks = append(tasks, Task{Oracle: "C03v", Cfg: "73heredoc", Src: s, Tag: "heredoc-trailer"})
		}
	}
	for _, s := range validStmts {
		tasks = append(tasks, Task{Oracle: "C03v", Cfg: "valid", Src: []byte("<?php " + s), Tag: "valid"})
		tasks = append(tasks, Task{Oracle: "C03v", Cfg: "valid", Src: []byte("<?php\r" + strings.ReplaceAll(s, " ", "\r")), Tag: "valid-lone-CR"})
	}
	// (4) offsets in simple interpolation
	offs := []struct{ text, kind, vers string }{
		{"0", "int", "5.6,7.4"}, {"7", "int", "5.6,7.4"}, {"42", "int", "5.6,7.4"}, {"9223372036854775807", "int", "5.6,7.4"},
		{"9223372036854775808", "str", "5.6,7.4"}, {"99999999999999999999", "str", "5.6,7.4"},
		{"0x1F", "str", "5.6,7.4"}, {"0xff", "str", "5.6,7.4"}, {"0b11", "str", "5.6,7.4"}, {"012", "str", "5.6,7.4"}, {"00", "str", "5.6,7.4"}, {"007", "str", "5.6,7.4"},
		{"b", "str", "5.6,7.4"}, {"foo_1", "str", "5.6,7.4"}, {"1_0", "str", "7.4"}, {"1_000_000", "str", "7.4"}, {"0_1", "str", "7.4"},
		{"-1", "negint", "7.4"}, {"-42", "negint", "7.4"}, {"-9223372036854775807", "negint", "7.4"},
		{"-0x1F", "str", "7.4"}, {"-0b11", "str", "7.4"}, {"-99999999999999999999", "str", "7.4"}, {"-012", "str", "7.4"}, {"-0", "str", "7.4"},
	}
	for _, of := range offs {
		for _, form := range []string{"<?php \"$a[%s]\";", "<?php echo \"x $a[%s] y\";", "<?php echo <<<A\n$a[%s]\nA;\n", "<?php `$a[%s]`;", "<?php \"$a[%s]$b[%s]\";"} {
			tasks = append(tasks, Task{Oracle: "C03off", Cfg: of.kind + "/" + of.vers, Src: []byte(strings.ReplaceAll(form, "%s", of.text)), Tag: "interpolation-offset"})
		}
	}
	runOracle(r, tasks)
	return r
}
