//go:build verif

package main

import (
	"encoding/hex"
	"fmt"
	"math/rand"

	"github.com/z7zmey/php-parser/pkg/parser"
	"github.com/z7zmey/php-parser/pkg/version"
)

func init() {
	commands["diff-version"] = diffVersion
}

var versionProbe = []byte("<?php $a ?? 1;") // error-free under php7 only

func realDispatch(v *version.Version) string {
	out := parseSafe(versionProbe, v, true)
	if out.Panic != "" {
		return "fault:" + out.Panic
	}
	if out.Err == parser.ErrVersionOutOfRange {
		if out.Root != nil {
			return "out-of-range+tree"
		}
		return "out-of-range"
	}
	if out.Err != nil {
		return "err:" + out.Err.Error()
	}
	if out.Root == nil {
		return "nil-root"
	}
	if len(out.Errs) > 0 {
		return "php5"
	}
	return "php7"
}

func diffVersion() *Result {
	r := &Result{Rule: "version operations: Compare/Validate/dispatch/GreaterOrEqual(7.3) on all pairs from boundary set B (0..10, 2^31, 2^32, 2^63, 2^64-1 and neighbours) and New on all strings over {0-9 . + - _ space x} up to length 4 plus overflow/sign/blank/multi-dot forms; non-trivial = distinct operation line"}
	rng := rand.New(rand.NewSource(opts.Seed))
	B := []uint64{0, 1, 2, 3, 4, 5, 6, 7, 8, 9, 10, 1<<31 - 1, 1 << 31, 1 << 32, 1<<63 - 1, 1 << 63, 1<<64 - 2, 1<<64 - 1}
	for i := 0; i < 6; i++ {
		B = append(B, rng.Uint64())
	}
	var lines, real []string
	add := func(l string, f func() string) {
		lines = append(lines, l)
		real = append(real, guard(f))
	}
	for _, a := range B {
		for _, b := range B {
			v := &version.Version{Major: a, Minor: b}
			add(fmt.Sprintf("vervalidate %d %d", a, b), func() string {
				if err := v.Validate(); err != nil {
					if err == version.ErrUnsupportedVer {
						return "unsupported"
					}
					return "err:" + err.Error()
				}
				return "ok"
			})
			add(fmt.Sprintf("verdispatch %d %d", a, b), func() string { return realDispatch(v) })
			add(fmt.Sprintf("verge73 %d %d", a, b), func() string {
				return fmt.Sprint(v.GreaterOrEqual(&version.Version{Major: 7, Minor: 3}))
			})
		}
	}
	small := []uint64{0, 4, 5, 6, 7, 1 << 63, 1<<64 - 1, B[len(B)-1]}
	for _, a := range small {
		for _, b := range small {
			for _, c := range small {
				for _, d := range small {
					v, o := &version.Version{Major: a, Minor: b}, &version.Version{Major: c, Minor: d}
					add(fmt.Sprintf("vercmp %d %d %d %d", a, b, c, d), func() string {
						x := v.Compare(o)
						// the derived predicates must agree with Compare
						if v.Less(o) != (x < 0) || v.LessOrEqual(o) != (x <= 0) || v.Greater(o) != (x > 0) || v.GreaterOrEqual(o) != (x >= 0) {
							return fmt.Sprintf("%d/derived-predicates-disagree", x)
						}
						return fmt.Sprint(x)
					})
				}
			}
		}
	}
	add("verdispatchnil", func() string { return realDispatch(nil) })
	alpha := []byte("0179.+-_ x")
	var strs []string
	var gen func(prefix []byte, k int)
	gen = func(prefix []byte, k int) {
		strs = append(strs, string(prefix))
		if k == 0 {
			return
		}
		for _, c := range alpha {
			gen(append(append([]byte{}, prefix...), c), k-1)
		}
	}
	gen(nil, 4)
	strs = append(strs, "7.4", "5.6", "7.4.1", "18446744073709551615.18446744073709551615", "18446744073709551616.0", "0.18446744073709551616",
		"007.0004", "7.", ".4", "7..4", " 7.4", "7.4 ", "+7.4", "7.-4", "7.4\n", "1e1.0", "0x7.4", "7_0.4", "99999999999999999999999.1", "٧.٤", "7.4.", "..", "7\x00.4")
	for _, s := range strs {
		s := s
		add("vernew "+hexOrDash([]byte(s)), func() string {
			v, err := version.New(s)
			if err != nil {
				if v != nil {
					return "err+value"
				}
				return "err"
			}
			return fmt.Sprintf("ok %d %d", v.Major, v.Minor)
		})
	}
	seen := map[string]bool{}
	for _, l := range lines {
		seen[l] = true
	}
	r.Evaluations = len(lines)
	r.DistinctNontrivial = len(seen)
	diffLines(r, lines, real)
	r.sample(map[string]string{"op": lines[0], "real": real[0]})
	r.sample(map[string]string{"op": lines[len(lines)-3], "real": real[len(lines)-3]})
	return r
}

func hexOrDash(b []byte) string {
	if len(b) == 0 {
		return "-"
	}
	return hex.EncodeToString(b)
}
