//go:build verif

package main

import (
	"fmt"
	"strconv"
	"strings"

	"github.com/z7zmey/php-parser/pkg/conf"
	"github.com/z7zmey/php-parser/pkg/verifbridge"
)

func init() { commands["diff-glue"] = diffGlue }

func intsStr(xs []int) string {
	if len(xs) == 0 {
		return "-"
	}
	ss := make([]string, len(xs))
	for i, x := range xs {
		ss[i] = strconv.Itoa(x)
	}
	return strings.Join(ss, ",")
}

// diff-glue (T-diff, M-GLUE): the lookahead helpers of lexer.go on every (data, p) over a small
// alphabet of the bytes they test, |data| <= 4, p from -1 to |data|+1 (faults included), plus random
// longer buffers; isValidVarName* on all 256 bytes; the call stack on every op sequence up to length 5.
func diffGlue() *Result {
	r := &Result{Rule: "exhaustive: data over {\\\\ $ { a LF CR blank ; ? > A} with |data| <= 3 (thorough: 5), p in [-1, |data|+1], each helper; versions 7.2 and 7.4 for the heredoc test; all 256 bytes for isValidVarName(Start); call/ret sequences up to length 5 over {call, ret 1, ret 2}; random longer buffers. Real panics are recovered and compared with the model's Fault"}
	rng := newRand("diff-glue")
	alpha := []byte{'\\', '$', '{', 'a', '\n', '\r', ' ', ';', '?', '>', 'A'}
	maxLen, nrand := 3, 600
	if opts.Tier == "thorough" {
		maxLen, nrand = 5, 3000
	}
	var datas [][]byte
	var rec func(cur []byte)
	rec = func(cur []byte) {
		datas = append(datas, append([]byte(nil), cur...))
		if len(cur) == maxLen {
			return
		}
		for _, c := range alpha {
			rec(append(cur, c))
		}
	}
	if opts.Tier != "thorough" {
		alpha = alpha[:9]
	}
	rec(nil)
	for i := 0; i < nrand; i++ {
		var b []byte
		for j := rng.Intn(14); j > 0; j-- {
			b = append(b, alpha[rng.Intn(len(alpha))])
		}
		if rng.Intn(2) == 0 {
			b = append(b, " \t A"...)
		}
		datas = append(datas, b)
	}
	var lines, real []string
	b2s := func(b bool) string { return strconv.FormatBool(b) }
	for _, d := range datas {
		for p := -1; p <= len(d)+1; p++ {
			st := verifbridge.LexerState{P: p}
			mk := func(v uint64, label []byte) *verifbridge.Lexer {
				st.HeredocLabel = label
				return verifbridge.NewLexerState(d, conf.Config{Version: ver(7, v)}, st)
			}
			h := hexOrDash(d)
			lines = append(lines, fmt.Sprintf("notStringVar %s %d", h, p))
			real = append(real, guard(func() string { return b2s(mk(4, nil).VerifIsNotStringVar()) }))
			lines = append(lines, fmt.Sprintf("notStringEnd %s %d %d", h, p, '"'))
			real = append(real, guard(func() string { return b2s(mk(4, nil).VerifIsNotStringEnd('"')) }))
			lines = append(lines, fmt.Sprintf("notPhpClose %s %d", h, p))
			real = append(real, guard(func() string { return b2s(mk(4, nil).VerifIsNotPhpCloseToken()) }))
			lines = append(lines, fmt.Sprintf("notNewLine %s %d", h, p))
			real = append(real, guard(func() string { return b2s(mk(4, nil).VerifIsNotNewLine()) }))
			for _, label := range [][]byte{[]byte("A"), []byte("a;"), {}} {
				lines = append(lines, fmt.Sprintf("hdBefore %s %d %s", h, p, hexOrDash(label)))
				real = append(real, guard(func() string { return b2s(mk(2, label).VerifIsHeredocEndBefore73(p)) }))
				lines = append(lines, fmt.Sprintf("hdSince %s %d %s", h, p, hexOrDash(label)))
				real = append(real, guard(func() string {
					lx := mk(4, label)
					ok := lx.VerifIsHeredocEndSince73(p)
					if ok {
						return fmt.Sprintf("true %d", lx.VerifState().P)
					}
					return "false"
				}))
			}
		}
	}
	for c := 0; c < 256; c++ {
		lines = append(lines, fmt.Sprintf("varStart %d", c))
		real = append(real, b2s(verifbridge.IsValidVarNameStart(byte(c))))
		lines = append(lines, fmt.Sprintf("varName %d", c))
		real = append(real, b2s(verifbridge.IsValidVarName(byte(c))))
	}
	// call stack
	ops := []string{"c", "r1", "r2"}
	var seqs [][]string
	var rec2 func(cur []string)
	rec2 = func(cur []string) {
		if len(cur) > 0 {
			seqs = append(seqs, append([]string(nil), cur...))
		}
		if len(cur) == 5 {
			return
		}
		for _, o := range ops {
			rec2(append(cur, o))
		}
	}
	rec2(nil)
	// long histories: the stack is grown on demand, so depths well past any initial capacity
	nlong := 300
	if opts.Tier == "thorough" {
		nlong = 3000
	}
	for k := 0; k < nlong; k++ {
		n := 6 + rng.Intn(150)
		pcall := 50 + rng.Intn(50)
		var sq []string
		for i := 0; i < n; i++ {
			switch x := rng.Intn(100); {
			case x < pcall:
				sq = append(sq, "c")
			case x < pcall+(100-pcall)*2/3:
				sq = append(sq, "r1")
			default:
				sq = append(sq, "r2")
			}
		}
		seqs = append(seqs, sq)
	}
	for d := 1; d <= 140; d++ { // d calls, then d returns
		var sq []string
		for i := 0; i < d; i++ {
			sq = append(sq, "c")
		}
		for i := 0; i < d; i++ {
			sq = append(sq, "r1")
		}
		seqs = append(seqs, sq)
	}
	for _, sq := range seqs {
		var enc []string
		res := guard(func() string {
			lx := verifbridge.NewLexerState([]byte("xxxxxxxxxxxx"), conf.Config{}, verifbridge.LexerState{P: 0})
			lxs := lx.VerifState()
			_ = lxs
			// cs starts at the lexer's start state; the model starts at 100: compare top / p / stack and cs only after a ret
			for i, o := range sq {
				switch o {
				case "c":
					lx.VerifCall(200+i, 300+i)
				case "r1":
					lx.VerifRet(1)
				case "r2":
					lx.VerifRet(2)
				}
			}
			s := lx.VerifState()
			return fmt.Sprintf("%d %d %s", s.Top, s.P, intsStr(s.Stack))
		})
		for i, o := range sq {
			if o == "c" {
				enc = append(enc, fmt.Sprintf("c%d:%d", 200+i, 300+i))
			} else {
				enc = append(enc, o)
			}
		}
		lines = append(lines, "callstack "+strings.Join(enc, ";"))
		real = append(real, res)
	}
	// the model prints "top cs p stack": drop cs for the comparison (initial cs differs by construction)
	ans, err := modelAnswers(lines)
	if err != nil {
		r.Mismatches = append(r.Mismatches, Mismatch{Op: "<driver>", Model: err.Error()})
		return r
	}
	r.Cases = len(lines)
	faults := 0
	for i := range lines {
		m := ans[i]
		if strings.HasPrefix(lines[i], "callstack ") && !strings.HasPrefix(m, "fault") {
			f := strings.Fields(m)
			if len(f) == 4 {
				m = f[0] + " " + f[2] + " " + f[3]
			}
		}
		if strings.HasPrefix(real[i], "fault") {
			faults++
		}
		if m != real[i] && len(r.Mismatches) < 20 {
			r.Mismatches = append(r.Mismatches, Mismatch{Op: lines[i], Model: m, Real: real[i]})
		}
	}
	r.stat("buffers", len(datas))
	r.stat("cases_where_the_real_code_faults", faults)
	r.sample(map[string]string{"op": lines[40], "real": real[40]})
	r.sample(map[string]string{"op": lines[len(lines)-1], "real": real[len(real)-1]})
	return r
}
