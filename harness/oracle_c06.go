//go:build verif

package main

import (
	"fmt"
	"strings"

	"github.com/z7zmey/php-parser/pkg/token"
)

func init() {
	commands["oracle-C06"] = oracleC06
	oracles["C06"] = evalC06
}

var openers = map[token.ID]int{'(': 0, '[': 1, '{': 2, token.T_CURLY_OPEN: 2, token.T_DOLLAR_OPEN_CURLY_BRACES: 2}
var closers = map[token.ID]int{')': 0, ']': 1, '}': 2}

// balanced: openers = closers per bracket family over the significant token ids (Lean C06.sentences7_balanced:
// every sentence of the extracted grammars is balanced, so an unbalanced token sequence is
// provably not a valid program).
func balanced(ids []token.ID) bool {
	var open, close [3]int
	for _, id := range ids {
		if f, ok := openers[id]; ok {
			open[f]++
		} else if f, ok := closers[id]; ok {
			close[f]++
		}
	}
	return open == close
}

// evalC06: (a) shape of every delivered error; (b) same tree with and without callback;
// (c) silent => non-nil root; (d) provably invalid (unbalanced brackets) => at least one error.
func evalC06(src []byte, cfg string) (o Outcome) {
	starts := lineStartsOf(src)
	must := strings.HasPrefix(cfg, "must|") // the input is invalid by a rule of the language: an error is due
	cfg = strings.TrimPrefix(cfg, "must|")
	for _, vs := range strings.Split(cfg, ",") {
		a, b := parseVer(vs)
		fail := func(site, d string) {
			o.Fails = append(o.Fails, Failure{Site: site, Kind: "input", Config: vs, Detail: d})
		}
		po := parseSafe(src, ver(a, b), true)
		pn := parseSafe(src, ver(a, b), false)
		if po.Panic != "" || pn.Panic != "" {
			fail("panic:"+po.Site+pn.Site, clip(po.Panic+pn.Panic, 200))
			continue
		}
		// (b)
		if (po.Root == nil) != (pn.Root == nil) {
			fail("callback-changes-tree", "root is nil only in one of the two runs (with / without callback)")
		} else if po.Root != nil && fullStr(po.Root, true) != fullStr(pn.Root, true) {
			fail("callback-changes-tree", "tree differs between the run with and the run without error callback")
		}
		// (c)
		if len(po.Errs) == 0 {
			o.Tags = append(o.Tags, "silent")
			if po.Root == nil {
				fail("silent-nil-root", "no error delivered but the returned tree is nil")
			}
			if must {
				fail("invalid-accepted", "the program is invalid (a reference as foreach key / a trait with extends or implements) but no error was delivered")
			}
		} else {
			o.Tags = append(o.Tags, "reported")
		}
		// (a)
		last := -1
		var spans map[[2]int]bool
		for i, e := range po.Errs {
			// the offsets select the offending text: a syntax error is reported at a token, so its span must be
			// the span of a token of this very source (offsets counted from the first byte the caller handed over)
			if e.Pos != nil && strings.HasPrefix(e.Msg, "syntax error") && e.Pos.StartPos >= 0 && e.Pos.EndPos <= len(src) && e.Pos.StartPos < e.Pos.EndPos {
				if spans == nil {
					spans = map[[2]int]bool{}
					if lt, _, pan := lexAll(src, a, b); pan == "" {
						for _, t := range lt {
							spans[[2]int{t.S, t.E}] = true
						}
					}
				}
				if len(spans) > 0 && !spans[[2]int{e.Pos.StartPos, e.Pos.EndPos}] {
					fail("error-span-not-a-token", fmt.Sprintf("syntax error %q at %d..%d (%q): no token of the source has that span", clip(e.Msg, 50), e.Pos.StartPos, e.Pos.EndPos, clip(string(src[e.Pos.StartPos:e.Pos.EndPos]), 30)))
				}
			}
			if strings.TrimSpace(e.Msg) == "" {
				fail("error-empty-message", fmt.Sprintf("error #%d has an empty message", i))
			}
			if e.Pos == nil {
				o.Tags = append(o.Tags, "error-nopos")
				continue
			}
			p := e.Pos
			if p.StartPos < 0 || p.EndPos > len(src) || p.StartPos > p.EndPos {
				fail("error-range", fmt.Sprintf("error %q position %d..%d outside source of %d bytes", clip(e.Msg, 40), p.StartPos, p.EndPos, len(src)))
				continue
			}
			if p.StartPos == p.EndPos {
				fail("error-empty-span", fmt.Sprintf("error %q has an empty span at %d", clip(e.Msg, 40), p.StartPos))
			}
			if want := lineAt(starts, p.StartPos); p.StartLine != want {
				fail("error-line", fmt.Sprintf("error %q at %d..%d: StartLine %d, want %d", clip(e.Msg, 40), p.StartPos, p.EndPos, p.StartLine, want))
			}
			if p.EndPos > p.StartPos {
				if want := lineAt(starts, p.EndPos-1); p.EndLine != want {
					fail("error-line", fmt.Sprintf("error %q at %d..%d: EndLine %d, want %d", clip(e.Msg, 40), p.StartPos, p.EndPos, p.EndLine, want))
				}
			}
			if p.StartPos < last {
				site := "error-order"
				if a == 5 && (strings.Contains(e.Msg, "Key element cannot be a reference") || strings.Contains(e.Msg, "A trait cannot")) {
					site = "error-order:php5-semantic"
				}
				fail(site, fmt.Sprintf("error %q at %d arrives after an error at %d", clip(e.Msg, 40), p.StartPos, last))
			}
			if p.StartPos > last {
				last = p.StartPos
			}
		}
		// (d)
		if len(po.Errs) == 0 {
			toks, nerr, pan := lexAll(src, a, b)
			if pan == "" && nerr == 0 && !balanced(idsOf(toks)) {
				fail("unbalanced-accepted", "significant tokens have unbalanced brackets (not a sentence of the grammar, Lean grammar_balanced) but no error was delivered")
			}
		}
	}
	o.Nontrivial = len(src) > 0
	return
}

func oracleC06() *Result {
	r := &Result{Rule: "real parse with and without callback; every delivered error: non-empty message, nil or in-range non-empty position, lines by an independent oracle, non-decreasing offsets; trees of both runs equal (tokens + positions); silent => root non-nil; an input whose significant tokens are bracket-unbalanced (provably outside the grammar) must deliver an error. an input that is invalid by a rule of the language (a reference as foreach key, a trait with extends / implements; all subject/key/value/body/context combinations) must deliver an error under every version. Generators: error-free corpus/G-cfg sources with one bracket token inserted or deleted or truncated after an opener, plus arbitrary bytes (G-bytes, mutations, random). Non-trivial = distinct non-empty input"}
	rng := newRand("C06")
	versions := "5.6,7.4"
	k := 2
	nmut := 4
	if opts.Tier == "thorough" {
		versions = "5.0,5.6,7.0,7.2,7.3,7.4"
		k = 3
		nmut = 20
	}
	var tasks []Task
	add := func(b []byte, tag string) {
		tasks = append(tasks, Task{Oracle: "C06", Cfg: versions, Src: b, Tag: tag})
	}
	for _, c := range regressionInputs("C06") {
		add(c, "regression")
	}
	srcs := [][]byte{}
	for _, e := range edgeSources {
		srcs = append(srcs, []byte(e))
	}
	for _, s := range loadCorpus() {
		if len(s.Src) < 6000 {
			srcs = append(srcs, s.Src)
		}
	}
	srcs = append(srcs, cfgSentences(rng)...)
	// what may stand in front of the first open tag: a byte order mark, a shebang line, inline HTML — followed by
	// malformed code, so that errors with positions are delivered behind it
	for _, pre := range []string{"\xef\xbb\xbf", "#!/usr/bin/env php\n", "<html>\n", "\xef\xbb\xbf#!/bin/php\n", "\n\n"} {
		for _, bad := range []string{"<?php\n$a = ;\n", "<?php foo(;\n$b = 1;", "<?php\nclass { }\n", "<?php $x = \x01 1; echo 2 3;", "<?php\n\n} echo 1;"} {
			add([]byte(pre+bad), "prefix-malformed")
		}
	}
	for _, s := range srcs {
		add(s, "base")
		toks, _, pan := lexAll(s, 7, 4)
		if pan != "" || len(toks) == 0 {
			continue
		}
		for j := 0; j < nmut; j++ {
			t := toks[rng.Intn(len(toks))]
			var m []byte
			switch rng.Intn(3) {
			case 0: // insert an opener / closer before a token
				br := []string{"(", "[", "{", ")", "]", "}"}[rng.Intn(6)]
				m = append(append(append([]byte(nil), s[:t.S]...), br...), s[t.S:]...)
				add(m, "bracket-insert")
			case 1: // delete a bracket token
				var cand []LexTok
				for _, u := range toks {
					if _, ok := openers[u.ID]; ok {
						cand = append(cand, u)
					} else if _, ok := closers[u.ID]; ok {
						cand = append(cand, u)
					}
				}
				if len(cand) > 0 {
					u := cand[rng.Intn(len(cand))]
					m = append(append([]byte(nil), s[:u.S]...), s[u.E:]...)
					add(m, "bracket-delete")
				}
			case 2: // truncate
				add(append([]byte(nil), s[:t.S]...), "truncate")
			}
		}
		if len(s) < 3000 {
			for _, m := range mutations(s, rng, 2) {
				add(m, "mutation")
			}
		}
	}
	// programs that are invalid by a rule of the language other than bracket balance: PHP rejects a
	// reference as foreach key ("Key element cannot be a reference") and a trait that extends or
	// implements; all combinations of subject / key / value / body forms and contexts
	subjects := []string{"$a", "$a->b", "$a[0]", "f()", "A::$b", "A::f()", "array(1, 2)", "[1, 2]", "$a + $b", "new A", "(array) $x", "\"s\"", "1", "$a ? $b : $c", "clone $a", "function() {}"}
	keys := []string{"&$k", "& $k", "&$k->p", "&$k[0]", "& /* c */ $k"}
	vals := []string{"$v", "&$v", "list($x, $y)", "$v->w"}
	bodies := []string{"{}", "{ echo $v; }", "echo 1;", ": endforeach;", ": echo 1; endforeach;"}
	ctxs := [][2]string{{"<?php ", ""}, {"<?php function g() { ", " }"}, {"<?php class C { function m() { ", " } }"}, {"<?php if ($x) { ", " } else { }"}, {"<?php\n$q = 1;\n", "\n$r = 2;"}}
	mustAdd := func(b string) {
		tasks = append(tasks, Task{Oracle: "C06", Cfg: "must|" + versions, Src: []byte(b), Tag: "invalid-by-rule"})
	}
	for i, sj := range subjects {
		for j, ky := range keys {
			for l, vl := range vals {
				for m, bd := range bodies {
					if opts.Tier != "thorough" && (i+j+l+m)%3 != 0 {
						continue
					}
					cx := ctxs[(i+j+l+m)%len(ctxs)]
					mustAdd(cx[0] + "foreach (" + sj + " as " + ky + " => " + vl + ") " + bd + cx[1])
				}
			}
		}
	}
	for _, t := range []string{"trait A extends B {}", "trait A implements B {}", "trait A extends B implements C, D { function f() {} }", "trait A implements \\B\\C { }", "trait\nA\nextends\nB\n{\n}", "namespace N; trait A extends B { use T; }"} {
		mustAdd("<?php " + t)
		mustAdd("<?php $a = 1; " + t + " $b = 2;")
	}
	for _, b := range genBytesExhaustive(k) {
		add(b, "g-bytes")
	}
	for _, b := range genBytesRandom(rng, 2000, 60) {
		add(b, "random")
	}
	runOracle(r, tasks)
	return r
}
