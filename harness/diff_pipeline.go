//go:build verif

package main

import (
	"encoding/hex"
	"fmt"
	"strconv"
	"strings"

	"github.com/z7zmey/php-parser/pkg/ast"
	"github.com/z7zmey/php-parser/pkg/conf"
	"github.com/z7zmey/php-parser/pkg/errors"
	"github.com/z7zmey/php-parser/pkg/parser"
)

func init() { commands["diff-pipeline"] = diffPipeline }

// diff-pipeline (T-diff): `parser.Parse` as a whole — the public entry point — against the composition of
// the scanner model and the parser model in Lean (Model/Pipeline.lean) on source BYTES: number of lexer
// warnings, number of semantic errors, and the complete tree (kinds, fields, token placement, positions,
// values).  Versions 5.6, 7.2 (before the flexible heredoc) and 7.4.
func diffPipeline() *Result {
	r := &Result{Rule: "every input of diff-yy's generators plus every byte after mode prefixes (sampled), parsed from source bytes by the real parser.Parse and by the Lean pipeline model under 5.6, 7.2 and 7.4: lexer-warning count, semantic-error count and the complete tree are equal"}
	loadKindCodes()
	srcs, tags := yyInputsThin(r, 4)
	var lines, real []string
	var metas []int
	seen := map[string]bool{}
	stat := map[string]int{}
	for i, s := range srcs {
		if len(s) > 8000 {
			continue
		}
		for _, v := range [][3]uint64{{7, 4, 1}, {7, 2, 0}, {5, 6, 0}} {
			key := fmt.Sprint(v) + string(s)
			if seen[key] {
				continue
			}
			seen[key] = true
			toks, pan := streamTokens(s, v[0], v[1])
			if pan != "" {
				stat["skipped:lexer-panic"]++
				continue
			}
			te := &treeEnc{idx: map[tokKey]int{}}
			for j, t := range toks {
				k := tokKey{id: t.ID, s: -1, e: -1}
				if t.Position != nil {
					k.s, k.e = t.Position.StartPos, t.Position.EndPos
				}
				if _, dup := te.idx[k]; dup {
					te.amb = true
				}
				te.idx[k] = j
			}
			if te.amb {
				stat["skipped:ambiguous-token-positions"]++
				continue
			}
			nlex, nsem := 0, 0
			var root ast.Vertex
			ppan := ""
			func() {
				defer func() {
					if e := recover(); e != nil {
						ppan = fmt.Sprint(e)
					}
				}()
				cfg := conf.Config{Version: ver(v[0], v[1]), ErrorHandlerFunc: func(e *errors.Error) {
					switch {
					case strings.HasPrefix(e.Msg, "WARNING"):
						nlex++
					case strings.HasPrefix(e.Msg, "syntax error"):
					default:
						nsem++
					}
				}}
				root, _ = parser.Parse(s, cfg)
			}()
			if ppan != "" {
				stat["skipped:parser-panic"]++
				continue
			}
			te.node(root)
			h := hex.EncodeToString(s)
			if h == "" {
				h = "-"
			}
			fam := "7"
			if v[0] == 5 {
				fam = "5"
			}
			lines = append(lines, fmt.Sprintf("pparse %s %d %s", fam, v[2], h))
			real = append(real, fmt.Sprintf("%d %d %s", nsem, nlex, te.b.String()))
			metas = append(metas, i)
			stat["tag:"+tags[i]]++
		}
	}
	ans, err := modelAnswers(lines)
	if err != nil {
		r.Mismatches = append(r.Mismatches, Mismatch{Op: "<driver>", Model: err.Error()})
		return r
	}
	for i := range lines {
		f := strings.SplitN(ans[i], " ", 5)
		if len(f) != 5 {
			stat["model-fault"]++
			if len(r.Mismatches) < 20 {
				r.Mismatches = append(r.Mismatches, Mismatch{Op: lines[i][:10] + " " + printable(srcs[metas[i]]), Model: clip(ans[i], 200), Real: clip(real[i], 200)})
			}
			continue
		}
		// resolve symbolic byte values with the model's own token offsets
		var offs [][2]int
		for _, w := range strings.Split(f[4], ",") {
			p := strings.Split(w, ":")
			if len(p) == 3 {
				a, _ := strconv.Atoi(p[1])
				b, _ := strconv.Atoi(p[2])
				offs = append(offs, [2]int{a, b})
			}
		}
		src := srcs[metas[i]]
		tree := reModelBytes.ReplaceAllStringFunc(f[3], func(m string) string {
			sm := reModelBytes.FindStringSubmatch(m)
			j, _ := strconv.Atoi(sm[2])
			pre := ""
			if sm[1] != "-" {
				pre = sm[1]
			}
			if j < 0 || j >= len(offs) || offs[j][0] < 0 || offs[j][1] > len(src) || offs[j][0] > offs[j][1] {
				return "x?"
			}
			return "x" + pre + hex.EncodeToString(src[offs[j][0]:offs[j][1]])
		})
		got := f[1] + " " + f[2] + " " + tree
		r.Cases++
		if got != real[i] {
			stat["mismatch"]++
			if len(r.Mismatches) < 20 {
				d := firstDiff([]byte(got), []byte(real[i]))
				lo := maxInt(0, d-60)
				r.Mismatches = append(r.Mismatches, Mismatch{Op: fmt.Sprintf("%s %s (first difference at %d)", lines[i][:10], printable(src), d),
					Model: clip(got[minInt(lo, len(got)):], 300), Real: clip(real[i][minInt(lo, len(real[i])):], 300)})
			}
		}
	}
	for k, v := range stat {
		r.stat(k, v)
	}
	r.Evaluations = len(lines)
	r.DistinctNontrivial = r.Cases
	return r
}
