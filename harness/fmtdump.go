//go:build verif

package main

import (
	"fmt"
	"os"
	"runtime/debug"

	"github.com/z7zmey/php-parser/pkg/ast"
	"github.com/z7zmey/php-parser/pkg/visitor/formatter"
)

func init() { commands["fmt-dump"] = fmtDump }

func formatSafe(root ast.Vertex) (pan string) {
	defer func() {
		if e := recover(); e != nil {
			pan = fmt.Sprint(e) + " @" + panicSite(string(debug.Stack()))
		}
	}()
	root.Accept(formatter.NewFormatter())
	return ""
}

// fmt-dump: debugging aid — formatted text of every corpus snippet, one record per snippet.
func fmtDump() *Result {
	r := &Result{}
	f, _ := os.Create(opts.File)
	defer f.Close()
	for _, s := range loadCorpus() {
		for _, v := range [][2]uint64{{5, 6}, {7, 4}} {
			po := parseSafe(s.Src, ver(v[0], v[1]), true)
			if po.Panic != "" || po.Root == nil || len(po.Errs) > 0 {
				continue
			}
			if p := formatSafe(po.Root); p != "" {
				fmt.Fprintf(f, "== %s %d.%d\nPANIC %s\n", s.Origin, v[0], v[1], p)
				continue
			}
			out, p := printStr(po.Root)
			fmt.Fprintf(f, "== %s %d.%d\n%s\n%s\n", s.Origin, v[0], v[1], out, p)
		}
	}
	return r
}
