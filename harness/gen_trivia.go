//go:build verif

package main

import (
	"bytes"
	"math/rand"
)

// triviaVariants re-renders a source with other line terminators (safe everywhere except that
// it changes string contents, which C02 does not care about: any error-free text must round-trip).
func triviaVariants(src []byte, rng *rand.Rand, n int) [][]byte {
	var out [][]byte
	if bytes.Contains(src, []byte("\n")) && !bytes.Contains(src, []byte("\r")) {
		out = append(out, bytes.ReplaceAll(src, []byte("\n"), []byte("\r\n")))
		out = append(out, bytes.ReplaceAll(src, []byte("\n"), []byte("\r")))
	}
	if n > 2 {
		// random mix
		var b []byte
		for _, c := range src {
			if c == '\n' {
				switch rng.Intn(3) {
				case 0:
					b = append(b, '\n')
				case 1:
					b = append(b, '\r', '\n')
				default:
					b = append(b, '\r')
				}
			} else {
				b = append(b, c)
			}
		}
		out = append(out, b)
	}
	return out
}

// cfgSentences is filled in by the grammar-based generator (gen_cfg.go); until the grammar
// tables are loaded it returns nothing.
var cfgSentences = func(rng *rand.Rand) [][]byte { return nil }
